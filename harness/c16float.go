package main

import (
	"fmt"
	"math"
	"sort"
	"strings"

	"github.com/esimov/gogu"
	"github.com/esimov/gogu/heap"
)

// C16, float programs (mirror of fcall_of in coq/theories/C16_Wire.v and of fl_ops in C16_ModelF.v).
//
// The wire format is that of the int programs (c16.go) with a >= 100 (a-100 = the number of the nested
// []any): s and t are []float64, every value on the wire is the CODE of a float64 —
//
//	an integer z (|z| <= 2^53) = float64(z) (0 = +0);  2^59 = -0;  2^60 = NaN (every NaN);  +-2^61 = +-Inf;
//	2^58 = a value outside this set (only as a scalar RESULT: a Mean that is not an integer)
//
// — the sentinels before s / t and in their spare capacity are the floats -1000, -1001, ...; lists is the
// caller's [][]float64, anys a nested []any over []float64 / float64(5) / strings.  map0, map1, coll, coll2
// stay the int maps (no float call takes them; they are recorded all the same).
// p = c16FPred(x, y), f = c16FFun(x)  (y is a code).   (* = in place)
//
//	200 Sum 201 SumBy(f) 202 Mean 203 IndexOf(s,y) 204 LastIndexOf(s,y) 205 Contains(s,y) 206 FindMin 207 FindMinBy(f)
//	208 FindMax 209 FindMaxBy(f) 210 Min(s...) 211 Max(s...) 212 Unique 213 UniqueBy(f) 214 Duplicate 215 DuplicateWithIndex
//	216 Union([s,t]) 217 Intersection(s,t) 218 IntersectionBy(f,s,t) 219 Without(s,t...) 220 Difference(s,t)
//	221 DifferenceBy(s,t,f) 222 Intersection(t,s) 223 Difference(t,s) 224 Without(t,s...) 225 FindMin(t) 226 FindMax(t)
//	230 Filter(s,p) 231 Reject(s,p)* 232 Reverse(s)* 233 Drop(s,x) 234 Chunk(s,x) 235 Map(s,f) 236 Merge(s,t)
//	237 Partition(s,p) 238 heap.FromSlice(s,cmp)* 239 heap.Sort(s,cmp)* 240 Reduce(+,0) 241 Every(p) 242 Some(p)
//	243 FindIndex(p) 244 FindLastIndex(p) 245 DropWhile(p) 246 DropRightWhile(p) 247 Reject(t,p)* 248 Reverse(t)*
//	249 FindAll(s,p) 250 ToSlice(s...) 251 Nth(s,y) 252 Merge(s, lists[x:y]...) 253 Flatten(anys) 254 Union(anys)
//	255 Intersection(lists[x:y]...) 256 Shuffle(s) (value from the observation)
const (
	c16Frac  = 1 << 58
	c16NZero = 1 << 59
	c16NaN   = 1 << 60
	c16PInf  = 1 << 61
	c16NInf  = -(1 << 61)
)

var c16FNames = map[int]string{200: "Sum", 201: "SumBy", 202: "Mean", 203: "IndexOf", 204: "LastIndexOf", 205: "Contains",
	206: "FindMin", 207: "FindMinBy", 208: "FindMax", 209: "FindMaxBy", 210: "Min(s...)", 211: "Max(s...)", 212: "Unique",
	213: "UniqueBy", 214: "Duplicate", 215: "DuplicateWithIndex", 216: "Union([s,t])", 217: "Intersection(s,t)",
	218: "IntersectionBy(f,s,t)", 219: "Without(s,t...)", 220: "Difference(s,t)", 221: "DifferenceBy(s,t,f)",
	222: "Intersection(t,s)", 223: "Difference(t,s)", 224: "Without(t,s...)", 225: "FindMin(t)", 226: "FindMax(t)",
	230: "Filter", 231: "Reject", 232: "Reverse", 233: "Drop", 234: "Chunk", 235: "Map", 236: "Merge(s,t)", 237: "Partition",
	238: "heap.FromSlice", 239: "heap.Sort", 240: "Reduce", 241: "Every", 242: "Some", 243: "FindIndex", 244: "FindLastIndex",
	245: "DropWhile", 246: "DropRightWhile", 247: "Reject(t)", 248: "Reverse(t)", 249: "FindAll", 250: "ToSlice(s...)",
	251: "Nth", 252: "Merge(s,lists[x:y]...)", 253: "Flatten(anys)", 254: "Union(anys)", 255: "Intersection(lists[x:y]...)",
	256: "Shuffle"}

func c16F(c int) float64 {
	switch c {
	case c16NaN:
		return math.NaN()
	case c16NZero:
		return math.Copysign(0, -1)
	case c16PInf:
		return math.Inf(1)
	case c16NInf:
		return math.Inf(-1)
	}
	return float64(c)
}

func c16Code(f float64) int {
	switch {
	case f != f:
		return c16NaN
	case math.IsInf(f, 1):
		return c16PInf
	case math.IsInf(f, -1):
		return c16NInf
	case f == 0 && math.Signbit(f):
		return c16NZero
	case f == math.Trunc(f) && math.Abs(f) <= 1<<53:
		return int(f)
	}
	return c16Frac
}

func c16Codes(fs []float64) []int {
	out := make([]int, len(fs))
	for i, f := range fs {
		out[i] = c16Code(f)
	}
	return out
}

func c16FCodeStr(c int) string {
	switch c {
	case c16NaN:
		return "NaN"
	case c16NZero:
		return "-0"
	case c16PInf:
		return "+Inf"
	case c16NInf:
		return "-Inf"
	}
	return fmt.Sprint(c)
}

func c16FPred(c int, a float64) func(float64) bool {
	switch c {
	case 0:
		return func(v float64) bool { return v != v }
	case 1:
		return func(v float64) bool { return v < a }
	case 2:
		return func(v float64) bool { return v == a }
	case 3:
		return func(v float64) bool { return v > a }
	case 4:
		return func(float64) bool { return true }
	case 5:
		return func(v float64) bool { return gogu.InRange(v, 0, a) }
	}
	return func(float64) bool { return false }
}

func c16FFun(c int) func(float64) float64 {
	switch c {
	case 1:
		return func(v float64) float64 { return -v }
	case 2:
		return func(v float64) float64 { return v + 1 }
	case 3:
		return func(float64) float64 { return math.NaN() }
	case 4:
		return gogu.Abs[float64]
	case 5:
		return func(v float64) float64 { return gogu.Clamp(v, -1, 1) }
	}
	return func(v float64) float64 { return v }
}

func c16FCmp(x int) func(a, b float64) bool {
	if x == 0 {
		return func(a, b float64) bool { return a < b }
	}
	return func(a, b float64) bool { return a > b }
}

func c16FBacking(id, pre int, es []int, spare int) ([]float64, []float64) {
	n := len(es)
	b := make([]float64, pre+n+spare)
	for i := range b {
		b[i] = float64(c16Sent(id, i))
	}
	for i, c := range es {
		b[pre+i] = c16F(c)
	}
	return b, b[pre : pre+n : pre+n+spare]
}

type c16FWorld struct {
	s, t  []float64
	lb    [][]float64
	lists [][]float64
	anyb  []any
	anys  []any
	iw    *c16World // the int maps and their collections
}

func c16FAnyTree(a int, s, t []float64) []any {
	five := float64(5)
	bad := func(pos int, good ...any) []any {
		out := make([]any, 0, len(good)+1)
		out = append(out, good[:pos]...)
		out = append(out, "x")
		return append(out, good[pos:]...)
	}
	switch {
	case a == 0:
		return []any{s, []any{t, five}, t}
	case a <= 3:
		return bad(a-1, s, t)
	case a <= 6:
		return []any{s, bad(a-4, t, five), t}
	default:
		return []any{s, []any{t, bad(a-7, five, s), five}}
	}
}

func c16FPrintAny(out []int, cells []any) []int {
	for _, c := range cells {
		switch v := c.(type) {
		case []float64:
			out = append(out, 1, len(v))
			out = append(out, c16Codes(v)...)
		case float64:
			out = append(out, 2, c16Code(v))
		case []any:
			out = append(out, 3, len(v))
			out = c16FPrintAny(out, v)
		case nil:
			out = append(out, 8)
		default:
			out = append(out, 9)
		}
	}
	return out
}

func (w *c16FWorld) printL() []int {
	out := []int{}
	for _, e := range w.lb {
		out = append(out, len(e))
		out = append(out, c16Codes(e)...)
	}
	return out
}

func c16NewFWorld(s, t []float64, m0, m1 map[int]int, L, C []int, a int) *c16FWorld {
	w := &c16FWorld{s: s, t: t, iw: c16NewWorld(nil, nil, m0, m1, nil, C, 0)}
	w.lb = make([][]float64, 0, len(L)+2)
	w.lb = append(w.lb, []float64{-4242})
	for _, c := range L {
		switch {
		case c == 0:
			w.lb = append(w.lb, s)
		case c == 1:
			w.lb = append(w.lb, t)
		default:
			w.lb = append(w.lb, t[:(7*c)%(len(t)+1)])
		}
	}
	w.lb = append(w.lb, []float64{-4242})
	w.lists = w.lb[1 : 1+len(L) : 2+len(L)]
	tree := c16FAnyTree(a, s, t)
	w.anyb = append(append([]any{"sentinel"}, tree...), "sentinel")
	w.anys = w.anyb[1 : 1+len(tree) : 2+len(tree)]
	return w
}

func freaderOfSlice(r []float64) reader { return func() [][]int { return [][]int{c16Codes(r)} } }
func freaderOfSlices(r [][]float64) reader {
	return func() [][]int {
		out := make([][]int, len(r))
		for i, e := range r {
			out[i] = c16Codes(e)
		}
		return out
	}
}
func fscalar(v float64) reader { return scalarReader(c16Code(v)) }

// c16FCall performs one call of a float program and returns a re-reader of its result.
func c16FCall(fn, x, y int, w *c16FWorld) reader {
	s, t := w.s, w.t
	p, f, yf := c16FPred(x, c16F(y)), c16FFun(x), c16F(y)
	switch fn {
	case 200:
		return fscalar(gogu.Sum(s))
	case 201:
		return fscalar(gogu.SumBy(s, f))
	case 202:
		return fscalar(gogu.Mean(s))
	case 203:
		return scalarReader(gogu.IndexOf(s, yf))
	case 204:
		return scalarReader(gogu.LastIndexOf(s, yf))
	case 205:
		return boolReader(gogu.Contains(s, yf))
	case 206:
		return fscalar(gogu.FindMin(s))
	case 207:
		return fscalar(gogu.FindMinBy(s, f))
	case 208:
		return fscalar(gogu.FindMax(s))
	case 209:
		return fscalar(gogu.FindMaxBy(s, f))
	case 210:
		return fscalar(gogu.Min(s...))
	case 211:
		return fscalar(gogu.Max(s...))
	case 212:
		return freaderOfSlice(gogu.Unique(s))
	case 213:
		return freaderOfSlice(gogu.UniqueBy(s, f))
	case 214:
		r := gogu.Duplicate(s) // built by ranging over a map: compared sorted (by code)
		return func() [][]int { return [][]int{sortedInts(c16Codes(r))} }
	case 215:
		r := gogu.DuplicateWithIndex(s)
		return func() [][]int { // entries sorted by the code of the key (no entry can sit under NaN)
			type kv struct{ k, v int }
			es := []kv{}
			for k, v := range r {
				es = append(es, kv{c16Code(k), v})
			}
			sort.Slice(es, func(i, j int) bool { return es[i].k < es[j].k || (es[i].k == es[j].k && es[i].v < es[j].v) })
			out := []int{}
			for _, e := range es {
				out = append(out, e.k, e.v)
			}
			return [][]int{out}
		}
	case 216:
		r, _ := gogu.Union[float64]([]any{s, t})
		return freaderOfSlice(r)
	case 217:
		return freaderOfSlice(gogu.Intersection(s, t))
	case 218:
		return freaderOfSlice(gogu.IntersectionBy(f, s, t))
	case 219:
		return freaderOfSlice(gogu.Without[float64, float64](s, t...))
	case 220:
		return freaderOfSlice(gogu.Difference(s, t))
	case 221:
		return freaderOfSlice(gogu.DifferenceBy(s, t, f))
	case 222:
		return freaderOfSlice(gogu.Intersection(t, s))
	case 223:
		return freaderOfSlice(gogu.Difference(t, s))
	case 224:
		return freaderOfSlice(gogu.Without[float64, float64](t, s...))
	case 225:
		return fscalar(gogu.FindMin(t))
	case 226:
		return fscalar(gogu.FindMax(t))
	case 230:
		return freaderOfSlice(gogu.Filter(s, p))
	case 231:
		return freaderOfSlice(gogu.Reject(s, p))
	case 232:
		return freaderOfSlice(gogu.Reverse(s))
	case 233:
		return freaderOfSlice(gogu.Drop(s, x))
	case 234:
		return freaderOfSlices(gogu.Chunk(s, x))
	case 235:
		return freaderOfSlice(gogu.Map(s, f))
	case 236:
		return freaderOfSlice(gogu.Merge(s, t))
	case 237:
		r := gogu.Partition(s, p)
		return func() [][]int { return [][]int{c16Codes(r[0]), c16Codes(r[1])} }
	case 238:
		h := heap.FromSlice(s, c16FCmp(x))
		return func() [][]int { return [][]int{c16Codes(h.GetValues())} }
	case 239:
		return freaderOfSlice(heap.Sort(s, c16FCmp(x)))
	case 240:
		return fscalar(gogu.Reduce(s, func(a, b float64) float64 { return a + b }, 0))
	case 241:
		return boolReader(gogu.Every(s, p))
	case 242:
		return boolReader(gogu.Some(s, p))
	case 243:
		return scalarReader(gogu.FindIndex(s, p))
	case 244:
		return scalarReader(gogu.FindLastIndex(s, p))
	case 245:
		return freaderOfSlice(gogu.DropWhile(s, p))
	case 246:
		return freaderOfSlice(gogu.DropRightWhile(s, p))
	case 247:
		return freaderOfSlice(gogu.Reject(t, p))
	case 248:
		return freaderOfSlice(gogu.Reverse(t))
	case 249:
		r := gogu.FindAll(s, p)
		return func() [][]int {
			ks := make([]int, 0, len(r))
			for k := range r {
				ks = append(ks, k)
			}
			sort.Ints(ks)
			out := []int{}
			for _, k := range ks {
				out = append(out, k, c16Code(r[k]))
			}
			return [][]int{out}
		}
	case 250:
		return freaderOfSlice(gogu.ToSlice(s...))
	case 251:
		v, err := gogu.Nth(s, y)
		return scalarReader(c16Code(v), int(b2i(err != nil)))
	case 252:
		return freaderOfSlice(gogu.Merge(s, w.lists[x:y]...))
	case 253:
		r, _ := gogu.Flatten[float64](w.anys)
		return freaderOfSlice(r)
	case 254:
		r, _ := gogu.Union[float64](w.anys)
		return freaderOfSlice(r)
	case 255:
		return freaderOfSlice(gogu.Intersection(w.lists[x:y]...))
	case 256:
		return freaderOfSlice(gogu.Shuffle(s))
	}
	return constReader()
}

// execC16F runs a float program (a >= 100); everything has been range-checked by execC16.
func execC16F(pre, spare int, es []int, tpre, tspare int, et []int, f0, f1, L, C []int, a int, rest []int64) []int64 {
	out := &W{}
	b0, s := c16FBacking(0, pre, es, spare)
	b1, t := c16FBacking(1, tpre, et, tspare)
	m0, m1 := c16MapOf(f0), c16MapOf(f1)
	w := c16NewFWorld(s, t, m0, m1, L, C, a)
	var readers []reader
	for i := 0; i+2 < len(rest); i += 3 {
		fn, x, y := int(rest[i]), int(rest[i+1]), int(rest[i+2])
		var rd reader
		status := 0
		if try(func() { rd = c16FCall(fn, x, y, w) }) {
			status, rd = 2, constReader()
		}
		out.Int(status)
		if status == 0 {
			out.Intss(rd())
		}
		out.Ints(c16Codes(b0)).Ints(c16Codes(b1)).Ints(flatOfMap(m0)).Ints(flatOfMap(m1)).Ints(w.printL()).Ints(w.iw.printC()).Ints(w.iw.printC2()).Ints(c16FPrintAny([]int{}, w.anyb))
		for _, prev := range readers {
			out.Intss(prev())
		}
		readers = append(readers, rd)
	}
	return out.Out()
}

func describeC16F(pre, spare int, es []int, tpre, tspare int, et []int, L []int, a int, rest []int64) string {
	var sb strings.Builder
	show := func(xs []int) string {
		parts := make([]string, 0, len(xs))
		for i, c := range xs {
			if i == 12 {
				parts = append(parts, fmt.Sprintf("...(len %d)", len(xs)))
				break
			}
			parts = append(parts, c16FCodeStr(c))
		}
		return "[" + strings.Join(parts, " ") + "]"
	}
	fmt.Fprintf(&sb, "[]float64 s=%s (pre %d, spare cap %d) t=%s (pre %d, spare %d) lists=%v anys=#%d:", show(es), pre, spare, show(et), tpre, tspare, L, a)
	for i := 0; i+2 < len(rest); i += 3 {
		n, ok := c16FNames[int(rest[i])]
		if !ok {
			n = fmt.Sprintf("fn%d", rest[i])
		}
		fmt.Fprintf(&sb, " %s[float64][x=%d,y=%s];", n, rest[i+1], c16FCodeStr(int(rest[i+2])))
	}
	return sb.String()
}

// float call configurations: every helper whose code uses ==, <, >, += of the element type, and the
// callback-driven / structural ones with float callbacks (v != v, comparisons with NaN / Inf, gogu.Abs,
// gogu.Clamp, gogu.InRange)
func c16ConfigsF() []c16Cfg {
	return []c16Cfg{{200, 0, 0}, {201, 4, 0}, {201, 3, 0}, {202, 0, 0}, {203, 0, c16NaN}, {203, 0, 0}, {204, 0, c16NZero}, {204, 0, 1},
		{205, 0, c16NaN}, {205, 0, 0}, {206, 0, 0}, {207, 4, 0}, {207, 1, 0}, {208, 0, 0}, {209, 5, 0}, {209, 1, 0}, {210, 0, 0}, {211, 0, 0},
		{212, 0, 0}, {213, 4, 0}, {213, 3, 0}, {214, 0, 0}, {215, 0, 0}, {216, 0, 0}, {217, 0, 0}, {218, 4, 0}, {218, 3, 0}, {219, 0, 0}, {220, 0, 0},
		{221, 1, 0}, {221, 3, 0}, {222, 0, 0}, {223, 0, 0}, {224, 0, 0}, {225, 0, 0}, {226, 0, 0},
		{230, 0, 0}, {230, 1, 1}, {231, 0, 0}, {231, 2, 0}, {231, 5, 1}, {232, 0, 0}, {233, 1, 0}, {233, -1, 0}, {234, 1, 0}, {234, 2, 0}, {235, 1, 0}, {235, 5, 0},
		{236, 0, 0}, {237, 0, 0}, {238, 0, 0}, {238, 1, 0}, {239, 0, 0}, {239, 1, 0}, {240, 0, 0}, {241, 0, 0}, {242, 0, 0}, {243, 0, 0}, {244, 3, c16NInf},
		{245, 0, 0}, {246, 0, 0}, {247, 0, 0}, {248, 0, 0}, {249, 0, 0}, {250, 0, 0}, {251, 0, 1}, {251, 0, 7}, {252, 0, 3}, {253, 0, 0}, {254, 0, 0},
		{255, 0, 3}, {255, 1, 1}, {256, 0, 0}}
}

func c16FScalar(fn int) bool {
	return (fn >= 200 && fn <= 211) || fn == 225 || fn == 226 || (fn >= 240 && fn <= 244) || fn == 251
}

// genC16F: the float streams.  prog builds a wire program from (pre, spare, es, tpre, tspare, et, L, a, calls).
func genC16F(g *Gen, prog func(pre, spare int, es []int, tpre, tspare int, et []int, L []int, a int, calls ...c16Cfg) *W) {
	cfgF := c16ConfigsF()
	hasSpecial := func(es []int) bool {
		for _, c := range es {
			if c == c16NaN || c == c16NZero || c == c16PInf || c == c16NInf {
				return true
			}
		}
		return false
	}
	L := []int{1, 0, 2, 3, 1}
	// --- float A: every single call on every slice of length <= 2 over {NaN, +0, -0, 1, +Inf} and of length 3 over
	//     {NaN, -0, 1} (thorough: length <= 3 over {NaN, +0, -0, 1, +Inf, -Inf, 2} and length 4 over {NaN, -0, 1}),
	//     spare capacity {2, 0}, three second arguments
	alpha := []int{c16NaN, 0, c16NZero, 1, c16PInf}
	if !g.Quick() {
		alpha = append(alpha, c16NInf, 2)
	}
	ts := [][]int{{c16NaN, 1}, {}, {c16NZero, c16NaN, 0}}
	singles := func(es []int) {
		esc := cloneInts(es)
		for _, spare := range []int{2, 0} {
			for ti, et := range ts {
				if g.Quick() && ((ti > 0 && (spare == 0 || len(esc) >= 2)) || (spare == 0 && len(esc) == 3)) {
					continue // quick tier: the other second arguments on slices up to length 1, no-spare up to length 2
				}
				for _, c := range cfgF {
					if ti > 0 && c16FScalar(c.fn) && c.fn != 225 && c.fn != 226 {
						continue // the scalar-returning helpers take s only
					}
					g.Count("float:" + c16FNames[c.fn])
					g.Case("float", hasSpecial(esc) && spare >= 1, prog(1, spare, esc, ti%2, 2-ti, et, L, 100, c).Out())
				}
			}
		}
	}
	slicesOver(alpha, g.Pick(2, 3), singles)
	slicesOver([]int{c16NaN, c16NZero, 1}, g.Pick(3, 4), func(es []int) {
		if len(es) == g.Pick(3, 4) {
			singles(es)
		}
	})
	// --- float B: every ordered pair of the calls that return a slice / map or work in place (one parameter variant
	//     each; thorough: all configurations), on [NaN 1], [-0 NaN +0] (thorough: every slice of length 1..3 over {NaN, -0, 1})
	cfgB := []c16Cfg{}
	seen := map[int]bool{}
	for _, c := range cfgF {
		if g.Quick() && (seen[c.fn] || c16FScalar(c.fn)) && c.fn != 206 && c.fn != 208 {
			continue
		}
		if seen[c.fn] && (c.fn == 206 || c.fn == 208) {
			continue
		}
		seen[c.fn] = true
		cfgB = append(cfgB, c)
	}
	pairSlices := [][]int{{c16NaN, 1}, {c16NZero, c16NaN, 0}}
	if !g.Quick() {
		pairSlices = nil
		slicesOver([]int{c16NaN, c16NZero, 1}, 3, func(es []int) {
			if len(es) > 0 {
				pairSlices = append(pairSlices, cloneInts(es))
			}
		})
	}
	for _, esc := range pairSlices {
		for _, c1 := range cfgB {
			for _, c2 := range cfgB {
				g.Case("float", hasSpecial(esc), prog(1, 2, esc, 1, 1, []int{1, c16NaN}, L, 100, c1, c2).Out())
			}
		}
	}
	// --- float D: (c ; in-place ; c) around every in-place call, s = [x NaN y] shapes
	inplace := []c16Cfg{{231, 0, 0}, {231, 2, 1}, {232, 0, 0}, {238, 1, 0}, {239, 0, 0}, {247, 0, 0}, {248, 0, 0}}
	for _, es := range [][]int{{c16NaN, 1, 2}, {1, c16NaN, 0}, {c16NZero, 0, c16NaN}, {2, 1, c16NaN}, {c16NaN, c16NaN, 1}}[:g.Pick(3, 5)] {
		for _, c := range cfgF {
			if c16FScalar(c.fn) && c.fn != 206 && c.fn != 208 {
				continue
			}
			for _, ip := range inplace {
				g.Case("float", true, prog(1, 2, es, 1, 1, []int{c16NaN, 1}, L, 100, c, ip, c).Out())
			}
		}
	}
	// --- float E: Flatten / Union on the ten nested []any over float slices
	for _, es := range [][]int{{c16NaN, 1}, {c16NZero, c16NaN}} {
		for a := 0; a <= 9; a++ {
			for _, fl := range []c16Cfg{{253, 0, 0}, {254, 0, 0}} {
				g.Case("float", true, prog(1, 2, es, 1, 1, []int{0, c16NaN}, L, 100+a, fl).Out())
				g.Case("float", true, prog(1, 2, es, 1, 1, []int{0, c16NaN}, L, 100+a, fl, c16Cfg{206, 0, 0}, c16Cfg{507 - fl.fn, 0, 0}).Out())
			}
		}
	}
	// --- float large: long slices with NaN, -0 and Inf scattered among small integers
	mk := func(n, off int) []int {
		s := make([]int, n)
		x := uint32(off*2654435761 + 12345)
		for i := range s {
			x = x*1103515245 + 12345
			switch v := int((x >> 16) % 13); v {
			case 9:
				s[i] = c16NaN
			case 10:
				s[i] = c16NZero
			case 11:
				s[i] = c16PInf
			case 12:
				s[i] = c16NInf
			default:
				s[i] = v - 2
			}
		}
		return s
	}
	for _, n := range []int{33, 65, 129, 257}[:g.Pick(3, 4)] {
		es, et := mk(n, 3), mk(5, 1)
		for _, spare := range []int{0, 1, 6, n + 1} {
			for _, c := range cfgF {
				cc := c
				switch c.fn {
				case 233:
					cc.x = c.x * (n / 3)
				case 234:
					cc.x = 1 + c.x*(n/4)
				}
				g.Count(fmt.Sprintf("float-large:len=%d", n))
				g.Case("float-large", spare >= 1, prog(1, spare, es, 1, spare%5, et, L, 100, cc).Out())
			}
		}
	}
	// --- float random: programs of up to 3 calls
	vals := []int{c16NaN, c16NaN, c16NZero, 0, c16PInf, c16NInf, -2, -1, 1, 2, 3, 5}
	rs := func(maxLen int) []int {
		s := make([]int, g.Rng.Intn(maxLen+1))
		for i := range s {
			s[i] = vals[g.Rng.Intn(len(vals))]
		}
		return s
	}
	nr := g.Pick(1500, 30000)
	for i := 0; i < nr; i++ {
		es, et := rs(8), rs(4)
		calls := make([]c16Cfg, 1+g.Rng.Intn(3))
		for j := range calls {
			c := cfgF[g.Rng.Intn(len(cfgF))]
			switch c.fn {
			case 201, 207, 209, 213, 218, 221, 235:
				c.x = g.Rng.Intn(6)
			case 203, 204, 205:
				c.y = vals[g.Rng.Intn(len(vals)-1)]
			case 230, 231, 237, 241, 242, 243, 244, 245, 246, 247, 249:
				c.x, c.y = g.Rng.Intn(6), vals[g.Rng.Intn(len(vals)-1)]
			case 233:
				c.x = g.Rng.Intn(13) - 6
			case 234:
				c.x = 1 + g.Rng.Intn(4)
			case 251:
				c.y = g.Rng.Intn(9) - 3
			}
			calls[j] = c
		}
		spare := g.Rng.Intn(4)
		g.Case("float-random", hasSpecial(es) && spare >= 1 && len(calls) >= 2,
			prog(g.Rng.Intn(3), spare, es, g.Rng.Intn(2), g.Rng.Intn(3), et, L, 100+g.Rng.Intn(10), calls...).Out())
	}
}
