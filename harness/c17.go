package main

import (
	"bytes"
	"errors"
	"fmt"
	"runtime"
	"sync"
	"sync/atomic"
	"time"

	"github.com/esimov/gogu"
	"github.com/esimov/gogu/cache"
)

// C17 wire input (mirror of coq/theories/C17_Wire.v)
//
//	1 def  actions…      controlled run on NewMemoizer(def ns, 0); action = [kind key val clk]
//	                       kind 0 start a new caller on key, 1 running execution of key returns val,
//	                       2 running execution of key fails with error number val; clk 1 = sleep > 2*def first
//	                     observation: after every action, at quiescence,
//	                       [ncallers] ++ per caller [code val] ++ per key 1..3 [in flight, invocations, cached, value]
//	2 ncallers nkeys lat_us  per caller [key delay_us outcome]
//	                     free-running jittered run; observation = event log [type caller key outcome value]*
//	                     (delay_us < 0: busy-wait of -delay_us loop iterations instead of a sleep;
//	                      lat_us < 0: fn returns at once, lat_us = 0: fn yields once)
//
// The supplied function blocks on a harness-owned channel (controlled mode), so
// the harness decides when every caller starts and when every execution ends.
// Quiescence is detected by polling: every caller that has neither returned nor
// entered fn must be parked in sync.WaitGroup.Wait below singleflight.Do (seen
// in runtime.Stack); this is the "polling" part that makes C17 partial.
type c17Err struct{ id int }

func (e *c17Err) Error() string { return fmt.Sprintf("execution failed (%d)", e.id) }

// an item can only be minted by a cache (its fields are unexported)
func c17Item(v int) *cache.Item[int] {
	c := cache.New[string, int](cache.NoExpiration, 0)
	c.Set("v", v, cache.NoExpiration)
	it, _ := c.Get("v")
	return it
}

func c17Key(k int) string { return fmt.Sprintf("k%d", k) }

type c17Out struct {
	err bool
	v   int
}

const (
	c17Transit  = 0 // started, or released: neither in fn nor returned
	c17InFn     = 1
	c17Parked   = 2 // only in snapshots
	c17RetVal   = 3
	c17RetErr   = 4
	c17Unsettle = 5
)

type c17Caller struct {
	id, key int
	gid     []byte
	state   atomic.Int32
	val     atomic.Int64
	fin     chan c17Out
}

type c17World struct {
	m           *gogu.Memoizer[c17K, int]
	mu          sync.Mutex
	inflight    [4]int
	invocations [4]int
	callers     []*c17Caller
	stackBuf    []byte
}

func c17GID() []byte {
	var b [64]byte
	n := runtime.Stack(b[:], false)
	// "goroutine 123 [running]:"
	s := b[len("goroutine "):n]
	i := bytes.IndexByte(s, ' ')
	return append([]byte("goroutine "), s[:i+1]...)
}

func (w *c17World) start(key int) {
	c := &c17Caller{id: len(w.callers), key: key, fin: make(chan c17Out, 1)}
	w.callers = append(w.callers, c)
	ready := make(chan struct{})
	go func() {
		c.gid = c17GID()
		close(ready)
		fn := func() (*cache.Item[int], error) {
			w.mu.Lock()
			if key >= 1 && key <= 3 {
				w.inflight[key]++
				w.invocations[key]++
			}
			w.mu.Unlock()
			c.state.Store(c17InFn)
			out := <-c.fin
			w.mu.Lock()
			if key >= 1 && key <= 3 {
				w.inflight[key]--
			}
			w.mu.Unlock()
			if out.err {
				return nil, &c17Err{out.v}
			}
			return c17Item(out.v), nil
		}
		var it *cache.Item[int]
		var err error
		if try(func() { it, err = w.m.Memoize(c17K(c17Key(key)), fn) }) {
			c.val.Store(-1)
			c.state.Store(c17Unsettle)
			return
		}
		if err != nil {
			var ce *c17Err
			if errors.As(err, &ce) {
				c.val.Store(int64(ce.id))
			} else {
				c.val.Store(-1)
			}
			c.state.Store(c17RetErr)
			return
		}
		c.val.Store(int64(it.Val()))
		c.state.Store(c17RetVal)
	}()
	<-ready
}

// finish makes the running execution of key return; false if none is running
func (w *c17World) finish(key int, out c17Out) bool {
	for _, c := range w.callers {
		if c.key == key && c.state.Load() == c17InFn {
			c.state.Store(c17Transit)
			c.fin <- out
			return true
		}
	}
	return false
}

// parked reports whether the goroutine with the given header prefix is blocked
// in sync.WaitGroup.Wait called from singleflight.(*Group).Do
func parkedInSingleflight(dump, gid []byte) bool {
	i := bytes.Index(dump, gid)
	if i < 0 {
		return false
	}
	blk := dump[i:]
	if j := bytes.Index(blk, []byte("\n\n")); j >= 0 {
		blk = blk[:j]
	}
	hdrEnd := bytes.IndexByte(blk, '\n')
	if hdrEnd < 0 {
		return false
	}
	hdr := blk[len(gid):hdrEnd]
	if !(bytes.HasPrefix(hdr, []byte("[semacquire")) || bytes.HasPrefix(hdr, []byte("[sync.WaitGroup.Wait"))) {
		return false
	}
	return bytes.Contains(blk, []byte("sync.(*WaitGroup).Wait")) && bytes.Contains(blk, []byte("singleflight.(*Group).Do"))
}

// settle waits for quiescence and returns the per-caller codes
func (w *c17World) settle() []int32 {
	codes := make([]int32, len(w.callers))
	deadline := time.Now().Add(3 * time.Second)
	for iter := 0; ; iter++ {
		pending := false
		for i, c := range w.callers {
			codes[i] = c.state.Load()
			if codes[i] == c17Transit {
				pending = true
			}
		}
		if !pending {
			return codes
		}
		if iter >= 2 { // give the goroutines a moment before paying for a stack dump
			if w.stackBuf == nil {
				w.stackBuf = make([]byte, 1<<18)
			}
			n := runtime.Stack(w.stackBuf, true)
			dump := w.stackBuf[:n]
			all := true
			for i, c := range w.callers {
				if codes[i] == c17Transit {
					if parkedInSingleflight(dump, c.gid) && c.state.Load() == c17Transit {
						codes[i] = c17Parked
					} else {
						all = false
					}
				}
			}
			if all {
				return codes
			}
			if time.Now().After(deadline) {
				for i := range codes {
					if codes[i] == c17Transit {
						codes[i] = c17Unsettle
					}
				}
				return codes
			}
		}
		if iter < 200 {
			runtime.Gosched()
		} else {
			time.Sleep(50 * time.Microsecond)
		}
	}
}

func (w *c17World) snapshot(out *W) {
	codes := w.settle()
	out.Int(len(w.callers))
	for i, c := range w.callers {
		v := 0
		if codes[i] == c17RetVal || codes[i] == c17RetErr {
			v = int(c.val.Load())
		}
		out.Int(int(codes[i])).Int(v)
	}
	for k := 1; k <= 3; k++ {
		w.mu.Lock()
		inf, inv := w.inflight[k], w.invocations[k]
		w.mu.Unlock()
		out.Int(inf).Int(inv)
		it, _ := w.m.Cache.Get(c17K(c17Key(k)))
		if it != nil {
			out.Int(1).Int(it.Val())
		} else {
			out.Int(0).Int(0)
		}
	}
}

// drain releases whatever is still running so that no goroutine outlives the case
func (w *c17World) drain() {
	for round := 0; round < 64; round++ {
		any := false
		for _, c := range w.callers {
			if c.state.Load() == c17InFn {
				c.state.Store(c17Transit)
				c.fin <- c17Out{v: 0}
				any = true
			}
		}
		codes := w.settle()
		left := false
		for _, cd := range codes {
			if cd == c17InFn || cd == c17Parked {
				left = true
			}
		}
		if !any && !left {
			return
		}
	}
}

// one attempt at a controlled run; ok=false when a clk-0 action could not be
// shown to lie before every deadline of its epoch
func c17Controlled(def int64, acts []int64) (obs []int64, ok bool) {
	w := &c17World{m: gogu.NewMemoizer[c17K, int](time.Duration(def), 0)}
	defer w.drain()
	out := &W{}
	epochStart := time.Now()
	timed := def > 0 && def < int64(time.Minute)
	for i := 0; i+3 < len(acts); i += 4 {
		kind, key, val, clk := int(acts[i]), int(acts[i+1]), int(acts[i+2]), acts[i+3]
		if clk != 0 && def > 0 {
			time.Sleep(2*time.Duration(def) + time.Millisecond)
			epochStart = time.Now()
		}
		switch kind {
		case 0:
			w.start(key)
		case 1:
			w.finish(key, c17Out{v: val})
		case 2:
			w.finish(key, c17Out{err: true, v: val})
		}
		w.snapshot(out)
		if timed && time.Since(epochStart) >= time.Duration(def) {
			return nil, false
		}
	}
	return out.Out(), true
}

type c17Event struct{ typ, caller, key, outcome, val int }

var c17SpinSink atomic.Int64

// busy-wait of n loop iterations (a few ns each): staggers the callers of the
// tight-race stream by less than a scheduler quantum
func c17Spin(n int) {
	var x int64
	for i := 0; i < n; i++ {
		x += int64(i) ^ (x >> 3)
	}
	c17SpinSink.Add(x)
}

func c17Free(ncallers, nkeys, latUs int, cfg []int64) []int64 {
	m := gogu.NewMemoizer[c17K, int](time.Hour, 0)
	var mu sync.Mutex
	var log []c17Event
	ev := func(e c17Event) {
		mu.Lock()
		log = append(log, e)
		mu.Unlock()
	}
	var wg sync.WaitGroup
	gate := make(chan struct{})
	for c := 0; c < ncallers; c++ {
		key, delayUs, outcome := 1, 0, 0
		if 3*c+2 < len(cfg) {
			key, delayUs, outcome = int(cfg[3*c]), int(cfg[3*c+1]), int(cfg[3*c+2])
		}
		c := c
		wg.Add(1)
		go func() {
			defer wg.Done()
			<-gate
			if delayUs > 0 {
				time.Sleep(time.Duration(delayUs) * time.Microsecond)
			} else if delayUs < 0 {
				c17Spin(-delayUs) // sub-microsecond stagger (tight-race stream)
			}
			fn := func() (*cache.Item[int], error) {
				ev(c17Event{2, c, key, 0, 0})
				if latUs > 0 {
					time.Sleep(time.Duration(latUs) * time.Microsecond)
				} else if latUs == 0 {
					runtime.Gosched()
				} // latUs < 0: fn returns at once, without yielding (tight-race stream)
				if outcome != 0 {
					ev(c17Event{3, c, key, 1, 2000 + c})
					return nil, &c17Err{2000 + c}
				}
				ev(c17Event{3, c, key, 0, 1000 + c})
				return c17Item(1000 + c), nil
			}
			ev(c17Event{1, c, key, 0, 0})
			var it *cache.Item[int]
			var err error
			if try(func() { it, err = m.Memoize(c17K(c17Key(key)), fn) }) {
				ev(c17Event{4, c, key, 1, -2})
				return
			}
			if err != nil {
				id := -1
				var ce *c17Err
				if errors.As(err, &ce) {
					id = ce.id
				}
				ev(c17Event{4, c, key, 1, id})
				return
			}
			ev(c17Event{4, c, key, 0, it.Val()})
		}()
	}
	close(gate)
	done := make(chan struct{})
	go func() { wg.Wait(); close(done) }()
	select {
	case <-done:
	case <-time.After(20 * time.Second): // a hang: the log stays incomplete and the monitor rejects it
	}
	mu.Lock()
	defer mu.Unlock()
	for k := 1; k <= nkeys; k++ {
		it, _ := m.Cache.Get(c17K(c17Key(k)))
		if it != nil {
			log = append(log, c17Event{5, 0, k, 1, it.Val()})
		} else {
			log = append(log, c17Event{5, 0, k, 0, 0})
		}
	}
	out := &W{}
	for _, e := range log {
		out.Int(e.typ).Int(e.caller).Int(e.key).Int(e.outcome).Int(e.val)
	}
	return out.Out()
}

func execC17(in []int64) []int64 {
	if len(in) < 2 {
		return []int64{-1}
	}
	switch in[0] {
	case 1:
		for attempt := 0; attempt < 6; attempt++ {
			if obs, ok := c17Controlled(in[1], in[2:]); ok {
				return obs
			}
		}
		return []int64{-2} // ambiguous timing every time: the generator discards the case
	case 2:
		if len(in) < 4 {
			return []int64{-1}
		}
		return c17Free(int(in[1]), int(in[2]), int(in[3]), in[4:])
	}
	return []int64{-1}
}

func describeC17(in []int64) string {
	if len(in) < 2 {
		return ""
	}
	if in[0] == 2 {
		return fmt.Sprintf("free-running: %d callers, %d keys, fn latency %dus, per caller [key delay_us outcome] %v", in[1], in[2], in[3], in[4:])
	}
	s := fmt.Sprintf("controlled, default expiry %dns:", in[1])
	for i := 2; i+3 < len(in); i += 4 {
		if in[i+3] != 0 {
			s += " <let deadlines pass>"
		}
		switch in[i] {
		case 0:
			s += fmt.Sprintf(" start(k%d)", in[i+1])
		case 1:
			s += fmt.Sprintf(" finish(k%d, value %d)", in[i+1], in[i+2])
		case 2:
			s += fmt.Sprintf(" finish(k%d, error %d)", in[i+1], in[i+2])
		}
	}
	return s
}

func genC17(g *Gen) {
	hour := int64(time.Hour)
	// action letters: start k, finish-with-value k, finish-with-error k
	build := func(def int64, seq []int, nkeys int, clk []int) (*W, bool, bool) {
		w := (&W{}).Int(1).I64(def)
		running := map[int]bool{}
		cached := map[int]bool{}
		joinOrHit, noop, errSeen := false, false, false
		for i, a := range seq {
			kind, key := a/nkeys, a%nkeys+1
			c := 0
			if clk != nil {
				c = clk[i]
				if c != 0 {
					cached = map[int]bool{}
				}
			}
			val := 0
			switch kind {
			case 0:
				if running[key] || cached[key] {
					joinOrHit = true
				} else {
					running[key] = true
				}
			case 1:
				val = 10 + i
				if running[key] {
					cached[key] = true
				} else {
					noop = true
				}
				running[key] = false
			case 2:
				val = 50 + i
				if !running[key] {
					noop = true
				} else {
					errSeen = true
				}
				running[key] = false
			}
			w.Int(kind).Int(key).Int(val).Int(c)
		}
		return w, joinOrHit || errSeen, noop
	}
	emit := func(stream string, w *W, nt bool) bool {
		obs := execC17(w.Out())
		if len(obs) == 1 && obs[0] == -2 {
			g.Count("discarded: timing ambiguous")
			return false
		}
		g.Raw(stream, nt, w.Out(), obs)
		return true
	}
	// ---- exhaustive: every action sequence up to length 5 over 2 keys (thorough: 6) ----
	seqsUpTo(6, g.Pick(5, 6), func(seq []int) {
		w, nt, _ := build(hour, seq, 2, nil)
		g.Count(fmt.Sprintf("controlled len %d", len(seq)))
		if nt {
			g.Count("controlled: join / cache hit / error")
		}
		emit("exhaustive", w, nt)
	})
	if !g.Quick() {
		// three keys, up to length 6, without finishes of keys that are not running
		// (those are no-ops, covered above)
		seqsUpTo(9, 6, func(seq []int) {
			w, nt, noop := build(hour, seq, 3, nil)
			if noop {
				return
			}
			g.Count("controlled 3 keys")
			emit("exhaustive", w, nt)
		})
	} else {
		seqsUpTo(9, 4, func(seq []int) {
			w, nt, noop := build(hour, seq, 3, nil)
			if noop {
				return
			}
			g.Count("controlled 3 keys")
			emit("exhaustive", w, nt)
		})
	}
	g.Exhaustive("exhaustive")
	// other default expiries (0 = never, NoExpiration): random longer sequences
	nr := g.Pick(300, 4000)
	for i := 0; i < nr; i++ {
		n := 4 + g.Rng.Intn(12)
		seq := make([]int, n)
		for j := range seq {
			seq[j] = []int{0, 0, 0, 1, 1, 2}[g.Rng.Intn(6)]*3 + g.Rng.Intn(3)
		}
		def := []int64{hour, 0, -1}[g.Rng.Intn(3)]
		w, nt, _ := build(def, seq, 3, nil)
		g.Count("controlled random")
		emit("random", w, nt)
	}
	// ---- expiry: 5 ms default expiry, deadlines allowed to pass between actions ----
	ne := g.Pick(40, 400)
	for i := 0; i < ne; i++ {
		n := 3 + g.Rng.Intn(6)
		seq := make([]int, n)
		clk := make([]int, n)
		passes := 0
		for j := range seq {
			seq[j] = []int{0, 0, 1, 1, 2}[g.Rng.Intn(5)]*2 + g.Rng.Intn(2)
			if j > 0 && g.Rng.Intn(3) == 0 {
				clk[j] = 1
				passes++
			}
		}
		w, nt, _ := build(5*int64(time.Millisecond), seq, 2, clk)
		g.Count("controlled expiry 5ms")
		emit("expiry", w, nt && passes > 0)
	}
	// the canonical re-computation after expiry
	emit("expiry", (&W{}).Int(1).I64(5*int64(time.Millisecond)).
		Int(0).Int(1).Int(0).Int(0).Int(1).Int(1).Int(11).Int(0).Int(0).Int(1).Int(0).Int(0).
		Int(0).Int(1).Int(0).Int(1).Int(1).Int(1).Int(12).Int(0).Int(0).Int(1).Int(0).Int(0), true)
	// ---- free-running jittered runs: monitored, not model-compared ----
	type job struct {
		in, obs []int64
	}
	var jobs []*job
	nf := g.Pick(400, 6000)
	for i := 0; i < nf; i++ {
		nc := 1 + g.Rng.Intn(16)
		nk := 1 + g.Rng.Intn(3)
		lat := []int{0, 200, 2000}[g.Rng.Intn(3)]
		spread := []int{0, 300, 5000}[g.Rng.Intn(3)]
		perr := g.Rng.Intn(3) // 0: never fail, 1: a quarter, 2: half
		w := (&W{}).Int(2).Int(nc).Int(nk).Int(lat)
		for c := 0; c < nc; c++ {
			d := 0
			if spread > 0 {
				d = g.Rng.Intn(spread)
			}
			o := 0
			if g.Rng.Intn(4) < perr {
				o = 1
			}
			w.Int(1 + g.Rng.Intn(nk)).Int(d).Int(o)
		}
		jobs = append(jobs, &job{in: w.Out()})
	}
	// ---- tight race: many short rounds of 2..4 callers on ONE key, zero latency, starts
	// staggered by a sub-microsecond busy-wait, so that a caller's cache miss, another
	// caller's complete flight (store + removal from the group) and the first caller's
	// group.Do interleave (the window the controlled runs cannot reach); a quarter of the
	// rounds let the first caller's execution fail ----
	nFreeJobs := len(jobs)
	nt := g.Pick(10000, 60000)
	// measured on the unchanged code (16 cores): with fn returning at once (lat -1) about 1.5 % of
	// the rounds hit the window (with a runtime.Gosched in fn: 0.1 %); the spin range barely matters
	const spinMax, tightLat, workers = 300, -1, 4
	for i := 0; i < nt; i++ {
		nc := 2 + g.Rng.Intn(3)
		errFirst := g.Rng.Intn(4) == 0
		w := (&W{}).Int(2).Int(nc).Int(1).Int(tightLat)
		for c := 0; c < nc; c++ {
			o := 0
			if errFirst && c == 0 {
				o = 1
			}
			w.Int(1).Int(-g.Rng.Intn(spinMax + 1)).Int(o)
		}
		jobs = append(jobs, &job{in: w.Out()})
	}
	var wg sync.WaitGroup
	ch := make(chan *job)
	for i := 0; i < workers; i++ {
		wg.Add(1)
		go func() {
			defer wg.Done()
			for j := range ch {
				j.obs = execC17(j.in)
			}
		}()
	}
	for _, j := range jobs {
		ch <- j
	}
	close(ch)
	wg.Wait()
	for ji, j := range jobs {
		if ji >= nFreeJobs {
			// a second execution that begins after a successful one has ended: the
			// miss-before-store / Do-after-removal window was hit
			ended, reexec := false, false
			for i := 0; i+4 < len(j.obs); i += 5 {
				if j.obs[i] == 3 && j.obs[i+3] == 0 {
					ended = true
				}
				if j.obs[i] == 2 && ended {
					reexec = true
				}
			}
			g.Count(fmt.Sprintf("tightrace: %d callers", j.in[1]))
			if reexec {
				g.Count("tightrace: re-execution after a stored value (stale-miss window hit)")
			}
			if j.in[6] != 0 {
				g.Count("tightrace: first caller's execution fails")
			}
			g.Raw("tightrace", reexec || j.in[6] != 0, j.in, j.obs)
			continue
		}
		g.Count(fmt.Sprintf("free: %d keys, latency %dus", j.in[2], j.in[3]))
		execs := 0
		for i := 0; i+4 < len(j.obs); i += 5 {
			if j.obs[i] == 2 {
				execs++
			}
		}
		if int64(execs) < j.in[1] {
			g.Count("free: some caller served without executing")
		}
		g.Raw("monitored", j.in[1] >= 2, j.in, j.obs)
	}
}

func init() {
	register(&Prop{ID: "C17", Exec: execC17, Gen: genC17, Describe: describeC17,
		Rule: "stream exhaustive (model-compared): every action sequence of length <= 5 (thorough 6) over {start caller on k, running execution of k returns a value, ... returns an error} for k in 1..2, plus 3 keys up to length 4 (thorough 6) without no-op finishes, driven against the real Memoize with callbacks blocking on harness channels, snapshot compared after every action at quiescence; stream random: longer controlled sequences on 3 keys with default expiry 1h / 0 / NoExpiration; stream expiry: controlled sequences with a 5 ms default expiry where the harness lets all deadlines pass before marked actions (cases whose timing cannot be bracketed are discarded and counted); stream monitored (MONITORED, NOT MODEL-COMPARED): free-running jittered runs, 1..16 callers x 1..3 keys x fn latency {0, 200us, 2ms} x start spread {0, 300us, 5ms} x outcomes, event log judged by the Gallina monitor mon_accepts; stream tightrace (MONITORED, NOT MODEL-COMPARED): 10000 (thorough 60000) free-running rounds of 2..4 callers on ONE key, fn returning at once, starts staggered by a random sub-microsecond busy-wait, a quarter with a failing first execution, same monitor (aimed at the window between a caller's cache miss and its group.Do; the histogram counts how often a re-execution after a stored value occurred); non-trivial there = that window was hit or the first execution fails. non-trivial = the sequence contains a join of an in-flight execution, a cache hit or an error outcome (controlled) / >= 2 callers (free); distinct = distinct wire input"})
}

// c17K: the key type of every memoizer of this harness is a NAMED string with a String method that prints the
// same text for every key: a Memoize that derives its flight / cache key from the printed form would make
// different keys share one computation.
type c17K string

func (c17K) String() string { return "memo key" }
