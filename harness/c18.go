package main

import (
	"errors"
	"fmt"
	"sync"
	"time"

	"github.com/esimov/gogu"
	"github.com/esimov/gogu/cache"
)

// C18 wire input (mirror of coq/theories/C18_Wire.v)
//
//	1 n m                 After:  m calls on a counter starting at n
//	2 def n m  rs         Before: cache.New(def ns, 0), counter n, m calls; callback results rs
//	3 def m  rs           Once:   cache.New(def ns, 0), m calls
//	4 n input  pat        RType{input}.Retry(n); invocation k succeeds iff pat[k] == 1
//	5 n dms input  pat    RType{input}.RetryWithDelay(n, dms ms)
//	6 def nA nB  rs  ops  mixed history on one cache: 0 Before(&A) 1 Before(&B) 2 Once 3 Delete("func")
//
// The k-th invocation of the callback returns rs[k] (0 beyond the list); for
// Retry it fails with error number k+1 unless pat[k] == 1.  Every callback
// counts its invocations; the observation reports, per wrapper call, how many
// invocations that call made and what it returned.
type c18Err struct{ k int }

func (e *c18Err) Error() string { return fmt.Sprintf("callback error %d", e.k) }

func c18ErrCode(err error) int64 {
	if err == nil {
		return 0
	}
	var ce *c18Err
	if errors.As(err, &ce) {
		return int64(ce.k)
	}
	return -1
}

func c18Final(c *cache.Cache[string, int]) []int64 {
	it, _ := c.Get("func")
	if it == nil {
		return []int64{0, 0}
	}
	return []int64{1, int64(it.Val())}
}

func execC18(in []int64) (out []int64) {
	r := &R{w: in}
	op := r.Int()
	var res []int64
	panicked := try(func() {
		switch op {
		case 1:
			n, m := r.Int(), r.Int()
			if m < 0 || m > 100000 {
				res = []int64{-1}
				return
			}
			runs := make([]int, m)
			for i := 0; i < m; i++ {
				i := i
				gogu.After(&n, func() { runs[i]++ })
			}
			res = (&W{}).Ints(runs).Int(n).Out()
		case 2, 3, 6:
			def := r.I64()
			var nA, nB, m int
			if op == 2 {
				nA, m = r.Int(), r.Int()
			} else if op == 3 {
				m = r.Int()
			} else {
				nA, nB = r.Int(), r.Int()
			}
			rs := r.Ints()
			var ops []int
			if op == 6 {
				ops = r.Ints()
			} else {
				if m < 0 || m > 100000 {
					res = []int64{-1}
					return
				}
				ops = make([]int, m)
				for i := range ops {
					ops[i] = map[int]int{2: 0, 3: 2}[op]
				}
			}
			c := cache.New[string, int](time.Duration(def), 0)
			k := 0
			fn := func() int {
				v := 0
				if k < len(rs) {
					v = rs[k]
				}
				k++
				return v
			}
			w := (&W{}).Int(len(ops))
			for _, o := range ops {
				before := k
				ret := 0
				switch o {
				case 0:
					ret = gogu.Before(&nA, c, fn)
				case 1:
					ret = gogu.Before(&nB, c, fn)
				case 2:
					ret = gogu.Once[string, int, int](c, fn)
				case 3:
					c.Delete("func")
				default:
					res = []int64{-1}
					return
				}
				w.Int(k - before).Int(ret)
			}
			if op == 2 {
				w.Int(nA)
			} else if op == 6 {
				w.Int(nA).Int(nB)
			}
			res = append(w.Out(), c18Final(c)...)
		case 4:
			n, input := r.Int(), r.Int()
			pat := r.Ints()
			k := 0
			inputsOK := true
			fn := func(x int) error {
				if x != input {
					inputsOK = false
				}
				i := k
				k++
				if i < len(pat) && pat[i] != 0 {
					return nil
				}
				return &c18Err{i + 1}
			}
			att, err := gogu.RType[int]{Input: input}.Retry(n, fn)
			res = []int64{int64(k), int64(att), c18ErrCode(err), b2i(inputsOK)}
		case 5:
			n, dms, input := r.Int(), r.Int(), r.Int()
			pat := r.Ints()
			d := time.Duration(dms) * time.Millisecond
			k := 0
			inputsOK := true
			var at []time.Time
			var elapsed []time.Duration
			fn := func(el time.Duration, x int) error {
				at = append(at, time.Now())
				elapsed = append(elapsed, el)
				if x != input {
					inputsOK = false
				}
				i := k
				k++
				if i < len(pat) && pat[i] != 0 {
					return nil
				}
				return &c18Err{i + 1}
			}
			total, att, err := gogu.RType[int]{Input: input}.RetryWithDelay(n, d, fn)
			gapsOK, elOK := true, true
			for i := 0; i < len(at); i++ {
				if elapsed[i] < 0 {
					elOK = false
				}
				if i > 0 {
					if at[i].Sub(at[i-1]) < d {
						gapsOK = false
					}
					if elapsed[i]-elapsed[i-1] < d {
						elOK = false
					}
				}
			}
			fails := k
			if err == nil && k > 0 {
				fails = k - 1
			}
			totOK := total >= time.Duration(fails)*d && (len(elapsed) == 0 || total >= elapsed[len(elapsed)-1])
			res = []int64{int64(k), int64(att), c18ErrCode(err), b2i(inputsOK), b2i(gapsOK), b2i(elOK), b2i(totOK)}
		default:
			res = []int64{-1}
		}
	})
	if panicked {
		return resPanic()
	}
	if r.bad {
		return []int64{-1}
	}
	return res
}

var c18Names = map[int]string{1: "After", 2: "Before", 3: "Once", 4: "Retry", 5: "RetryWithDelay", 6: "Mixed"}

func describeC18(in []int64) string {
	if len(in) == 0 {
		return ""
	}
	r := &R{w: in}
	op := r.Int()
	switch op {
	case 1:
		return fmt.Sprintf("After(n=%d) called %d times", r.Int(), r.Int())
	case 2:
		def, n, m := r.I64(), r.Int(), r.Int()
		return fmt.Sprintf("Before(n=%d) called %d times, cache default expiry %dns, callback results %v", n, m, def, r.Ints())
	case 3:
		def, m := r.I64(), r.Int()
		return fmt.Sprintf("Once called %d times, cache default expiry %dns, callback results %v", m, def, r.Ints())
	case 4:
		n, x := r.Int(), r.Int()
		return fmt.Sprintf("RType{%d}.Retry(n=%d), success pattern %v", x, n, r.Ints())
	case 5:
		n, d, x := r.Int(), r.Int(), r.Int()
		return fmt.Sprintf("RType{%d}.RetryWithDelay(n=%d, %dms), success pattern %v", x, n, d, r.Ints())
	case 6:
		def, a, b := r.I64(), r.Int(), r.Int()
		rs := r.Ints()
		names := []string{"Before(&A)", "Before(&B)", "Once", "Delete(func)"}
		s := ""
		for _, o := range r.Ints() {
			if o >= 0 && o < len(names) {
				s += names[o] + ";"
			}
		}
		return fmt.Sprintf("one cache (default expiry %dns), A=%d B=%d, callback results %v: %s", def, a, b, rs, s)
	}
	return fmt.Sprint(in)
}

const c18Hour = int64(3600) * int64(time.Second)

func genC18(g *Gen) {
	emit := func(stream string, nt bool, w *W) {
		g.Count(c18Names[int(w.w[0])])
		g.Case(stream, nt, w.Out())
	}
	seqInts := func(from, n int) []int {
		s := make([]int, n)
		for i := range s {
			s[i] = from + i
		}
		return s
	}
	defs := []int64{0, -1, c18Hour}
	// ---- exhaustive: n in -2..8 x calls 0..12 ----
	for n := -2; n <= 8; n++ {
		for m := 0; m <= 12; m++ {
			cross := m > n && n >= 1
			emit("exhaustive", cross, (&W{}).Int(1).Int(n).Int(m))
			if cross {
				g.Count("After/Before crosses the threshold")
			}
			for _, def := range defs {
				// distinct results, so that "which run produced this value" is visible
				emit("exhaustive", cross, (&W{}).Int(2).I64(def).Int(n).Int(m).Ints(seqInts(10, 14)))
			}
			// results with repetitions and a stream shorter than the number of runs
			emit("exhaustive", cross, (&W{}).Int(2).I64(0).Int(n).Int(m).Ints([]int{5, 5, -1, 0, 7}))
		}
	}
	for m := 0; m <= 12; m++ {
		for _, def := range defs {
			emit("exhaustive", m >= 2, (&W{}).Int(3).I64(def).Int(m).Ints(seqInts(10, 14)))
			emit("exhaustive", m >= 2, (&W{}).Int(3).I64(def).Int(m).Ints([]int{0, 3}))
		}
	}
	// ---- exhaustive: Retry, n in -2..8 x every success/failure pattern of length 0..8 ----
	for n := -2; n <= 8; n++ {
		seqsUpTo(2, 8, func(pat []int) {
			fails := 0
			for fails < len(pat) && pat[fails] == 0 {
				fails++
			}
			nt := n >= 2 && fails >= 1
			if nt {
				g.Count("Retry: >=1 failure before the outcome")
			}
			if n >= 0 && fails >= n {
				g.Count("Retry: exhausted")
			}
			emit("exhaustive", nt, (&W{}).Int(4).Int(n).Int(n*7+len(pat)).Ints(pat))
		})
	}
	// ---- exhaustive: RetryWithDelay with real delays (wall-clock lower bounds) ----
	type job struct {
		in  []int64
		nt  bool
		obs []int64
	}
	var jobs []*job
	maxN, maxP := g.Pick(4, 8), g.Pick(4, 8)
	for _, dms := range []int{1, 3} {
		for n := -2; n <= maxN; n++ {
			seqsUpTo(2, maxP, func(pat []int) {
				fails := 0
				for fails < len(pat) && pat[fails] == 0 {
					fails++
				}
				jobs = append(jobs, &job{in: (&W{}).Int(5).Int(n).Int(dms).Int(n + 3).Ints(pat).Out(), nt: n >= 2 && fails >= 1})
			})
		}
	}
	// the delays are slept in parallel (only lower bounds are checked, so load cannot produce a false alarm)
	var wg sync.WaitGroup
	ch := make(chan *job)
	for w := 0; w < 6; w++ {
		wg.Add(1)
		go func() {
			defer wg.Done()
			for j := range ch {
				j.obs = execC18(j.in)
			}
		}()
	}
	for _, j := range jobs {
		ch <- j
	}
	close(ch)
	wg.Wait()
	for _, j := range jobs {
		g.Count("RetryWithDelay")
		g.Raw("exhaustive", j.nt, j.in, j.obs)
	}
	// ---- exhaustive: mixed histories on one cache ----
	maxOps := g.Pick(5, 7)
	for _, ab := range [][2]int{{1, 1}, {2, 1}, {0, 2}, {3, 2}} {
		seqsUpTo(4, maxOps, func(ops []int) {
			kinds := map[int]bool{}
			for _, o := range ops {
				kinds[o] = true
			}
			emit("exhaustive", len(kinds) >= 3, (&W{}).Int(6).I64(0).Int(ab[0]).Int(ab[1]).Ints(seqInts(10, 2*len(ops)+2)).Ints(ops))
		})
	}
	g.Exhaustive("exhaustive")
	// ---- malformed / boundary ----
	emit("malformed", true, (&W{}).Int(1).Int(1<<40).Int(3))
	emit("malformed", true, (&W{}).Int(1).Int(-(1 << 40)).Int(3))
	emit("malformed", true, (&W{}).Int(2).I64(0).Int(3).Int(5).Ints(nil))
	emit("malformed", true, (&W{}).Int(3).I64(-1).Int(4).Ints(nil))
	emit("malformed", true, (&W{}).Int(4).Int(3000).Int(0).Ints([]int{0, 0, 0, 1}))
	emit("malformed", true, (&W{}).Int(4).Int(-(1 << 40)).Int(0).Ints([]int{1}))
	emit("malformed", true, (&W{}).Int(5).Int(-(1 << 40)).Int(1).Int(0).Ints([]int{1}))
	emit("malformed", true, (&W{}).Int(5).Int(3).Int(0).Int(0).Ints([]int{0, 0, 0}))
	emit("malformed", true, (&W{}).Int(5).Int(3).Int(-5).Int(0).Ints([]int{0, 0, 0}))
	emit("malformed", true, (&W{}).Int(6).I64(c18Hour).Int(-3).Int(0).Ints(nil).Ints([]int{3, 3, 0, 1, 2, 3, 2}))
	// ---- seeded random, larger ----
	nr := g.Pick(3000, 40000)
	for i := 0; i < nr; i++ {
		def := defs[g.Rng.Intn(3)]
		switch g.Rng.Intn(5) {
		case 0:
			n, m := g.Rng.Intn(50)-5, g.Rng.Intn(70)
			emit("random", m > n && n >= 1, (&W{}).Int(1).Int(n).Int(m))
		case 1:
			n, m := g.Rng.Intn(50)-5, g.Rng.Intn(70)
			emit("random", m > n && n >= 1, (&W{}).Int(2).I64(def).Int(n).Int(m).Ints(randSlice(g.Rng, 80, -3, 3)))
		case 2:
			m := g.Rng.Intn(40)
			emit("random", m >= 2, (&W{}).Int(3).I64(def).Int(m).Ints(randSlice(g.Rng, 6, -3, 3)))
		case 3:
			n := g.Rng.Intn(45) - 4
			pat := make([]int, g.Rng.Intn(50))
			p := g.Rng.Intn(4) // success probability 0, 1/8, 1/4, 3/8 ... long failure runs matter
			for j := range pat {
				if g.Rng.Intn(8) < p {
					pat[j] = 1
				}
			}
			fails := 0
			for fails < len(pat) && pat[fails] == 0 {
				fails++
			}
			emit("random", n >= 2 && fails >= 1, (&W{}).Int(4).Int(n).Int(g.Rng.Intn(100)-50).Ints(pat))
		case 4:
			ops := make([]int, g.Rng.Intn(24))
			kinds := map[int]bool{}
			for j := range ops {
				ops[j] = []int{0, 0, 1, 1, 2, 2, 3}[g.Rng.Intn(7)]
				kinds[ops[j]] = true
			}
			emit("random", len(kinds) >= 3, (&W{}).Int(6).I64(def).Int(g.Rng.Intn(8)-1).Int(g.Rng.Intn(8)-1).
				Ints(randSlice(g.Rng, 30, -3, 3)).Ints(ops))
		}
	}
}

func init() {
	register(&Prop{ID: "C18", Exec: execC18, Gen: genC18, Describe: describeC18,
		Rule: "exhaustive: After and Before for every n in -2..8 x 0..12 calls (Before on caches with default expiry 0 / NoExpiration / 1h, distinct and repeating callback results), Once for 0..12 calls, Retry for every n in -2..8 x every success/failure pattern of length 0..8, RetryWithDelay(d in {1ms,3ms}) for n in -2..4 x patterns of length <= 4 (thorough: -2..8 x <= 8) with wall-clock lower bounds, and every history of length <= 5 (thorough 7) over {Before(&A), Before(&B), Once, Delete(\"func\")} on one shared cache for 4 counter pairs; then seeded random (n up to 44, up to 69 calls, patterns up to 49). Every callback counts its invocations per wrapper call. non-trivial = the history crosses the threshold (calls > n >= 1) / Once called >= 2 times / Retry with n >= 2 and >= 1 failure before the outcome / mixed history using >= 3 of the 4 operations; distinct = distinct wire input"})
}
