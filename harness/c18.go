package main

import (
	"errors"
	"fmt"
	"math"
	"sync"
	"time"

	"github.com/esimov/gogu"
	"github.com/esimov/gogu/cache"
)

// C18 wire input (mirror of coq/theories/C18_Wire.v)
//
//	1 n m                 After:  m calls on a counter starting at n
//	2 def n m  rs         Before: cache.New(def ns, 0), counter n, m calls; callback results rs
//	3 def m  rs           Once:   cache.New(def ns, 0), m calls
//	4 n input  pat        RType{input}.Retry(n); invocation k succeeds iff pat[k] == 1
//	5 n dms input  pat    RType{input}.RetryWithDelay(n, dms ms)
//	6 def nA nB  rs  ops  mixed history on one cache: 0 Before(&A) 1 Before(&B) 2 Once 3 Delete("func")
//	                      4 Flush() 5 sleep until every stored entry has expired (longer than def; def <= 1s)
//	7 n dms input  pat  durs   RetryWithDelay(n, dms ms) with slow attempts: invocation k takes durs[k]*d/2
//	8 code off m          After on an extreme counter n = anchor(code)+off
//	9 def code off m  rs  Before on an extreme counter
//	10 code off input pat Retry with an extreme n
//	11 n m                After with a counter of type int8
//	12 def n m  rs        Before with a counter of type int8
//	   anchors: 0: 0, 1: MaxInt, 2: MinInt, 3: 2^31, 4: -2^31, 5: 2^62, 6: -2^62 (the model runner reads
//	   63-bit integers only); final counters of 8 and 9 are reported as [c >> 32, c & 0xffffffff]
//
// The k-th invocation of the callback returns rs[k] (0 beyond the list); for
// Retry it fails with error number k+1 unless pat[k] == 1.  Every callback
// counts its invocations; the observation reports, per wrapper call, how many
// invocations that call made and what it returned.
type c18Err struct{ k int }

func (e *c18Err) Error() string { return fmt.Sprintf("callback error %d", e.k) }

func c18ErrCode(err error) int64 {
	if err == nil {
		return 0
	}
	var ce *c18Err
	if errors.As(err, &ce) {
		return int64(ce.k)
	}
	return -1
}

func c18Anchor(code int) (int, bool) {
	switch code {
	case 0:
		return 0, true
	case 1:
		return math.MaxInt, true
	case 2:
		return math.MinInt, true
	case 3:
		return 1 << 31, true
	case 4:
		return -(1 << 31), true
	case 5:
		return 1 << 62, true
	case 6:
		return -(1 << 62), true
	}
	return 0, false
}

func c18Split(c int) []int64 { return []int64{int64(c) >> 32, int64(c) & 0xffffffff} }

func c18Final(c *cache.Cache[string, int]) []int64 {
	it, _ := c.Get("func")
	if it == nil {
		return []int64{0, 0}
	}
	return []int64{1, int64(it.Val())}
}

// c18History runs one history of wrapper calls on one cache.  With a positive
// default expiry the model's clock stands still between two sleeps; the real
// one does not, so the time spent since the last sleep is measured after every
// operation: beyond def/2 the run is reported as stalled (an entry might have
// expired on its own) and the caller executes the case again.  A sleep (op 5)
// lasts longer than def by the monotonic AND by the wall clock the cache reads.
func c18History(op int, def int64, nA, nB int, rs, ops []int, split, width8 bool) (res []int64, stalled bool) {
	c := cache.New[string, int](time.Duration(def), 0)
	k := 0
	fn := func() int {
		v := 0
		if k < len(rs) {
			v = rs[k]
		}
		k++
		return v
	}
	a8 := int8(nA) // the counter of the int8 instantiation (op 12)
	w := (&W{}).Int(len(ops))
	epoch := time.Now()
	for _, o := range ops {
		before := k
		ret := 0
		switch o {
		case 0:
			if width8 {
				ret = gogu.Before(&a8, c, fn)
				nA = int(a8)
			} else {
				ret = gogu.Before(&nA, c, fn)
			}
		case 1:
			ret = gogu.Before(&nB, c, fn)
		case 2:
			ret = gogu.Once[string, int, int](c, fn)
		case 3:
			c.Delete("func")
		case 4:
			c.Flush()
		case 5:
			if def > int64(time.Second) {
				return []int64{-999999}, false
			}
			if def > 0 {
				wall := time.Now().UnixNano()
				time.Sleep(time.Duration(def) + time.Duration(def)/8 + time.Millisecond)
				for time.Now().UnixNano() <= wall+def {
					time.Sleep(time.Millisecond)
				}
			}
			epoch = time.Now()
		default:
			return []int64{-1}, false
		}
		if def > 0 && time.Since(epoch) > time.Duration(def)/2 {
			stalled = true
		}
		w.Int(k - before).Int(ret)
	}
	res = w.Out()
	if split {
		res = append(res, c18Split(nA)...)
	} else if op == 2 {
		res = append(res, int64(nA))
	} else if op == 6 {
		res = append(res, int64(nA), int64(nB))
	}
	res = append(res, c18Final(c)...)
	if def > 0 && time.Since(epoch) > time.Duration(def)/2 {
		stalled = true
	}
	return res, stalled
}

func execC18(in []int64) (out []int64) {
	r := &R{w: in}
	op := r.Int()
	var res []int64
	panicked := try(func() {
		switch op {
		case 1:
			n, m := r.Int(), r.Int()
			if m < 0 || m > 100000 {
				res = []int64{-1}
				return
			}
			runs := make([]int, m)
			for i := 0; i < m; i++ {
				i := i
				gogu.After(&n, func() { runs[i]++ })
			}
			res = (&W{}).Ints(runs).Int(n).Out()
		case 2, 3, 6, 9, 12:
			def := r.I64()
			var nA, nB, m int
			if op == 2 {
				nA, m = r.Int(), r.Int()
			} else if op == 12 {
				nA, m = r.Int(), r.Int()
				if nA < math.MinInt8 || nA > math.MaxInt8 {
					res = []int64{-1}
					return
				}
			} else if op == 9 {
				code, off := r.Int(), r.Int()
				a, ok := c18Anchor(code)
				if !ok {
					res = []int64{-1}
					return
				}
				nA, m = a+off, r.Int()
			} else if op == 3 {
				m = r.Int()
			} else {
				nA, nB = r.Int(), r.Int()
			}
			rs := r.Ints()
			var ops []int
			if op == 6 {
				ops = r.Ints()
			} else {
				if m < 0 || m > 100000 {
					res = []int64{-1}
					return
				}
				ops = make([]int, m)
				for i := range ops {
					ops[i] = map[int]int{2: 0, 9: 0, 12: 0, 3: 2}[op]
				}
			}
			// A case whose calls between two sleeps took so long that an entry may have
			// expired on its own (a stalled machine) says nothing: it is executed again.
			for try := 0; try < 8; try++ {
				var stalled bool
				hop := op
				if op == 9 || op == 12 {
					hop = 2
				}
				res, stalled = c18History(hop, def, nA, nB, rs, ops, op == 9, op == 12)
				if !stalled {
					break
				}
			}
		case 4:
			n, input := r.Int(), r.Int()
			pat := r.Ints()
			k := 0
			inputsOK := true
			fn := func(x int) error {
				if x != input {
					inputsOK = false
				}
				i := k
				k++
				if i < len(pat) && pat[i] != 0 {
					return nil
				}
				return &c18Err{i + 1}
			}
			att, err := gogu.RType[int]{Input: input}.Retry(n, fn)
			res = []int64{int64(k), int64(att), c18ErrCode(err), b2i(inputsOK)}
		case 5:
			n, dms, input := r.Int(), r.Int(), r.Int()
			pat := r.Ints()
			d := time.Duration(dms) * time.Millisecond
			k := 0
			inputsOK := true
			var at []time.Time
			var elapsed []time.Duration
			fn := func(el time.Duration, x int) error {
				at = append(at, time.Now())
				elapsed = append(elapsed, el)
				if x != input {
					inputsOK = false
				}
				i := k
				k++
				if i < len(pat) && pat[i] != 0 {
					return nil
				}
				return &c18Err{i + 1}
			}
			total, att, err := gogu.RType[int]{Input: input}.RetryWithDelay(n, d, fn)
			gapsOK, elOK := true, true
			for i := 0; i < len(at); i++ {
				if elapsed[i] < 0 {
					elOK = false
				}
				if i > 0 {
					if at[i].Sub(at[i-1]) < d {
						gapsOK = false
					}
					if elapsed[i]-elapsed[i-1] < d {
						elOK = false
					}
				}
			}
			// the property asks for a pause BETWEEN consecutive attempts: k-1 pauses
			// (the code also pauses after the last failure; that is not demanded)
			gaps := 0
			if k > 0 {
				gaps = k - 1
			}
			totOK := total >= time.Duration(gaps)*d && (len(elapsed) == 0 || total >= elapsed[len(elapsed)-1])
			res = []int64{int64(k), int64(att), c18ErrCode(err), b2i(inputsOK), b2i(gapsOK), b2i(elOK), b2i(totOK)}
		case 8:
			code, off, m := r.Int(), r.Int(), r.Int()
			a, ok := c18Anchor(code)
			if !ok || m < 0 || m > 100000 {
				res = []int64{-1}
				return
			}
			n := a + off
			runs := make([]int, m)
			for i := 0; i < m; i++ {
				i := i
				gogu.After(&n, func() { runs[i]++ })
			}
			res = append((&W{}).Ints(runs).Out(), c18Split(n)...)
		case 11:
			n, m := r.Int(), r.Int()
			if n < math.MinInt8 || n > math.MaxInt8 || m < 0 || m > 100000 {
				res = []int64{-1}
				return
			}
			n8 := int8(n)
			runs := make([]int, m)
			for i := 0; i < m; i++ {
				i := i
				gogu.After(&n8, func() { runs[i]++ })
			}
			res = (&W{}).Ints(runs).Int(int(n8)).Out()
		case 10:
			code, off, input := r.Int(), r.Int(), r.Int()
			pat := r.Ints()
			a, ok := c18Anchor(code)
			if !ok {
				res = []int64{-1}
				return
			}
			k := 0
			inputsOK := true
			fn := func(x int) error {
				if x != input {
					inputsOK = false
				}
				i := k
				k++
				if i > len(pat)+2 {
					panic("c18: Retry keeps calling a callback that was to stop it") // never loop 2^63 times
				}
				if i < len(pat) && pat[i] != 0 {
					return nil
				}
				return &c18Err{i + 1}
			}
			att, err := gogu.RType[int]{Input: input}.Retry(a+off, fn)
			res = []int64{int64(k), int64(att), c18ErrCode(err), b2i(inputsOK)}
		case 7:
			n, dms, input := r.Int(), r.Int(), r.Int()
			pat := r.Ints()
			durs := r.Ints()
			d := time.Duration(dms) * time.Millisecond
			k := 0
			inputsOK := true
			var begin, end []time.Time
			var elapsed, took []time.Duration
			fn := func(el time.Duration, x int) error {
				begin = append(begin, time.Now())
				elapsed = append(elapsed, el)
				if x != input {
					inputsOK = false
				}
				i := k
				k++
				// the attempt itself takes durs[i] half-delays (0, d/2, 2.5 d ...)
				var cost time.Duration
				if i < len(durs) && durs[i] > 0 && d > 0 {
					u := durs[i]
					if u > 10 {
						u = 10
					}
					cost = time.Duration(u) * d / 2
					time.Sleep(cost)
				}
				took = append(took, cost)
				end = append(end, time.Now())
				if i < len(pat) && pat[i] != 0 {
					return nil
				}
				return &c18Err{i + 1}
			}
			total, att, err := gogu.RType[int]{Input: input}.RetryWithDelay(n, d, fn)
			// every check is a lower bound on measured time: load can only make them easier
			afterReturnOK, startsOK, elOK := true, true, true
			var need time.Duration
			for i := 0; i < len(begin); i++ {
				if elapsed[i] < 0 {
					elOK = false
				}
				if i > 0 {
					if begin[i].Sub(end[i-1]) < d {
						afterReturnOK = false
					}
					if begin[i].Sub(begin[i-1]) < took[i-1]+d {
						startsOK = false
					}
					if elapsed[i]-elapsed[i-1] < took[i-1]+d {
						elOK = false
					}
					need += d
				}
				need += took[i]
			}
			totOK := total >= need && (len(elapsed) == 0 || total >= elapsed[len(elapsed)-1]+took[len(took)-1])
			res = []int64{int64(k), int64(att), c18ErrCode(err), b2i(inputsOK), b2i(afterReturnOK), b2i(startsOK), b2i(elOK), b2i(totOK)}
		default:
			res = []int64{-1}
		}
	})
	if panicked {
		return resPanic()
	}
	if r.bad {
		return []int64{-1}
	}
	return res
}

var c18Names = map[int]string{1: "After", 2: "Before", 3: "Once", 4: "Retry", 5: "RetryWithDelay", 6: "Mixed", 7: "RetryWithDelay/slow attempts",
	8: "After/extreme n", 9: "Before/extreme n", 10: "Retry/extreme n", 11: "After/int8 counter", 12: "Before/int8 counter"}

func describeC18(in []int64) string {
	if len(in) == 0 {
		return ""
	}
	r := &R{w: in}
	op := r.Int()
	switch op {
	case 1:
		return fmt.Sprintf("After(n=%d) called %d times", r.Int(), r.Int())
	case 2:
		def, n, m := r.I64(), r.Int(), r.Int()
		return fmt.Sprintf("Before(n=%d) called %d times, cache default expiry %dns, callback results %v", n, m, def, r.Ints())
	case 3:
		def, m := r.I64(), r.Int()
		return fmt.Sprintf("Once called %d times, cache default expiry %dns, callback results %v", m, def, r.Ints())
	case 4:
		n, x := r.Int(), r.Int()
		return fmt.Sprintf("RType{%d}.Retry(n=%d), success pattern %v", x, n, r.Ints())
	case 5:
		n, d, x := r.Int(), r.Int(), r.Int()
		return fmt.Sprintf("RType{%d}.RetryWithDelay(n=%d, %dms), success pattern %v", x, n, d, r.Ints())
	case 11:
		return fmt.Sprintf("After with an int8 counter n=%d called %d times", r.Int(), r.Int())
	case 12:
		def, n, m := r.I64(), r.Int(), r.Int()
		return fmt.Sprintf("Before with an int8 counter n=%d called %d times, cache default expiry %dns, callback results %v", n, m, def, r.Ints())
	case 8:
		a, _ := c18Anchor(r.Int())
		off := r.Int()
		return fmt.Sprintf("After(n=%d) called %d times", a+off, r.Int())
	case 9:
		def := r.I64()
		a, _ := c18Anchor(r.Int())
		off, m := r.Int(), r.Int()
		return fmt.Sprintf("Before(n=%d) called %d times, cache default expiry %dns, callback results %v", a+off, m, def, r.Ints())
	case 10:
		a, _ := c18Anchor(r.Int())
		off, x := r.Int(), r.Int()
		return fmt.Sprintf("RType{%d}.Retry(n=%d), success pattern %v", x, a+off, r.Ints())
	case 7:
		n, d, x := r.Int(), r.Int(), r.Int()
		pat := r.Ints()
		return fmt.Sprintf("RType{%d}.RetryWithDelay(n=%d, %dms), success pattern %v, attempt durations in half-delays %v", x, n, d, pat, r.Ints())
	case 6:
		def, a, b := r.I64(), r.Int(), r.Int()
		rs := r.Ints()
		names := []string{"Before(&A)", "Before(&B)", "Once", "Delete(func)", "Flush()", "sleep past the expiry"}
		s := ""
		for _, o := range r.Ints() {
			if o >= 0 && o < len(names) {
				s += names[o] + ";"
			}
		}
		return fmt.Sprintf("one cache (default expiry %dns), A=%d B=%d, callback results %v: %s", def, a, b, rs, s)
	}
	return fmt.Sprint(in)
}

const c18Hour = int64(3600) * int64(time.Second)
const c18Short = int64(50) * int64(time.Millisecond)

func genC18(g *Gen) {
	emit := func(stream string, nt bool, w *W) {
		g.Count(c18Names[int(w.w[0])])
		g.Case(stream, nt, w.Out())
	}
	seqInts := func(from, n int) []int {
		s := make([]int, n)
		for i := range s {
			s[i] = from + i
		}
		return s
	}
	defs := []int64{0, -1, c18Hour}
	// ---- exhaustive: n in -2..8 x calls 0..12 ----
	for n := -2; n <= 8; n++ {
		for m := 0; m <= 12; m++ {
			cross := m > n && n >= 1
			emit("exhaustive", cross, (&W{}).Int(1).Int(n).Int(m))
			if cross {
				g.Count("After/Before crosses the threshold")
			}
			for _, def := range defs {
				// distinct results, so that "which run produced this value" is visible
				emit("exhaustive", cross, (&W{}).Int(2).I64(def).Int(n).Int(m).Ints(seqInts(10, 14)))
			}
			// results with repetitions and a stream shorter than the number of runs
			emit("exhaustive", cross, (&W{}).Int(2).I64(0).Int(n).Int(m).Ints([]int{5, 5, -1, 0, 7}))
		}
	}
	for m := 0; m <= 12; m++ {
		for _, def := range defs {
			emit("exhaustive", m >= 2, (&W{}).Int(3).I64(def).Int(m).Ints(seqInts(10, 14)))
			emit("exhaustive", m >= 2, (&W{}).Int(3).I64(def).Int(m).Ints([]int{0, 3}))
		}
	}
	// ---- extreme counters (both tiers): n at and around MaxInt, MinInt, +-2^31, +-2^62 with few calls — the callback
	// must simply never / always run, and the counter must come back intact (no narrower type, no saturation) ----
	for code := 1; code <= 6; code++ {
		for off := -3; off <= 3; off++ {
			if (code == 1 && off > 0) || (code == 2 && off < 0) {
				continue // not an int
			}
			for _, m := range []int{0, 1, 2, 5} {
				// within reach of MinInt the counter must come to rest there (it wrapped before repair ddacf7d)
				if code == 2 && m > off {
					g.Count("extreme: more calls than the distance to math.MinInt")
				}
				emit("extreme", m >= 2, (&W{}).Int(8).Int(code).Int(off).Int(m))
				emit("extreme", m >= 2, (&W{}).Int(9).I64(0).Int(code).Int(off).Int(m).Ints(seqInts(10, 6)))
			}
			// Retry(huge): stops at the first success, never counts to n; Retry(very negative): the error
			for _, pat := range [][]int{{1}, {0, 0, 1}, {0, 0, 0, 0, 0, 1, 0}} {
				emit("extreme", len(pat) >= 2, (&W{}).Int(10).Int(code).Int(off).Int(off*5+code).Ints(pat))
			}
		}
	}
	// ---- a counter of a narrow type (both tiers): After / Before are generic in V; with V = int8 the smallest value is
	// 128 calls away: the counter must rest at -128, After keeps running, Before never runs again ----
	for _, n := range []int{-128, -127, -100, -2, 0, 1, 5, 100, 127} {
		for _, m := range []int{0, 1, 30, 129, 130, 257, 300, 600} {
			rest := n-m <= -128
			if rest {
				g.Count("int8 counter reaches -128")
			}
			emit("int8", m >= 2, (&W{}).Int(11).Int(n).Int(m))
			emit("int8", m >= 2, (&W{}).Int(12).I64(0).Int(n).Int(m).Ints(seqInts(10, 8)))
		}
	}
	// ---- large counters (both tiers): n = 100 and 1000 with several hundred / thousand calls: a counter kept in a
	// narrower type, or a threshold compared modulo something, shows only here ----
	for _, n := range []int{100, 127, 128, 255, 256, 1000} {
		for _, m := range []int{n - 1, n, n + 1, n + 150, 2*n + 77} {
			emit("large", true, (&W{}).Int(1).Int(n).Int(m))
			emit("large", true, (&W{}).Int(2).I64(0).Int(n).Int(m).Ints(seqInts(1000, n+5)))
		}
		for _, f := range []int{0, n - 2, n - 1, n, n + 3} { // first success at invocation f (>= n: exhausted)
			pat := make([]int, n+5)
			if f < len(pat) {
				pat[f] = 1
			}
			emit("large", true, (&W{}).Int(4).Int(n).Int(n).Ints(pat))
		}
		emit("large", true, (&W{}).Int(4).Int(n).Int(-n).Ints(nil))
	}
	// (the model runner counts in unary: a few thousand calls per case is what it can afford; 2^15 / 2^16 calls are
	// covered by the +-2^31 and +-2^62 anchors only as far as the TYPE of the counter goes)
	for _, n := range []int{4095, 4096} {
		emit("large", true, (&W{}).Int(1).Int(n).Int(n+3))
		emit("large", true, (&W{}).Int(2).I64(0).Int(n).Int(n+3).Ints([]int{7}))
	}
	// ---- exhaustive: Retry, n in -2..8 x every success/failure pattern of length 0..8 ----
	for n := -2; n <= 8; n++ {
		seqsUpTo(2, 8, func(pat []int) {
			fails := 0
			for fails < len(pat) && pat[fails] == 0 {
				fails++
			}
			nt := n >= 2 && fails >= 1
			if nt {
				g.Count("Retry: >=1 failure before the outcome")
			}
			if n >= 0 && fails >= n {
				g.Count("Retry: exhausted")
			}
			emit("exhaustive", nt, (&W{}).Int(4).Int(n).Int(n*7+len(pat)).Ints(pat))
		})
	}
	// ---- exhaustive: RetryWithDelay with real delays (wall-clock lower bounds) ----
	var jobs []*c18Job
	maxN, maxP := g.Pick(4, 8), g.Pick(4, 8)
	for _, dms := range []int{1, 3} {
		for n := -2; n <= maxN; n++ {
			seqsUpTo(2, maxP, func(pat []int) {
				fails := 0
				for fails < len(pat) && pat[fails] == 0 {
					fails++
				}
				jobs = append(jobs, &c18Job{in: (&W{}).Int(5).Int(n).Int(dms).Int(n + 3).Ints(pat).Out(), nt: n >= 2 && fails >= 1})
			})
		}
	}
	// the delays are slept in parallel (only lower bounds are checked, so load cannot produce a false alarm)
	flush := func(stream, count string) {
		c18Parallel(jobs, 48)
		for _, j := range jobs {
			g.Count(count)
			g.Raw(stream, j.nt, j.in, j.obs)
		}
		jobs = nil
	}
	flush("exhaustive", "RetryWithDelay")
	// ---- exhaustive: RetryWithDelay with SLOW attempts: every gap is checked from the return of an attempt to the
	// start of the next, for every assignment of a duration in {0, d/2, 2.5d} to every attempt ----
	maxS := g.Pick(4, 5)
	for _, dms := range []int{2, 4}[:g.Pick(1, 2)] {
		for n := -1; n <= maxS; n++ {
			for f := 0; f <= maxS; f++ { // first success at invocation f; f == maxS: none within reach
				pat := make([]int, f+1)
				if f < maxS {
					pat[f] = 1
				}
				calls := 0
				if n > 0 {
					calls = n
					if f < maxS && f+1 < n {
						calls = f + 1
					}
				}
				seqsExact(3, calls, func(sel []int) {
					durs := make([]int, len(sel))
					slow := 0
					for i, v := range sel {
						durs[i] = []int{0, 1, 5}[v]
						if v > 0 && i+1 < len(sel) {
							slow++
						}
					}
					jobs = append(jobs, &c18Job{in: (&W{}).Int(7).Int(n).Int(dms).Int(n + 3).Ints(pat).Ints(durs).Out(), nt: slow >= 1})
				})
			}
		}
	}
	flush("exhaustive", "RetryWithDelay/slow attempts")
	// ---- exhaustive: mixed histories on one cache ----
	maxOps := g.Pick(5, 7)
	for _, ab := range [][2]int{{1, 1}, {2, 1}, {0, 2}, {3, 2}} {
		seqsUpTo(4, maxOps, func(ops []int) {
			kinds := map[int]bool{}
			for _, o := range ops {
				kinds[o] = true
			}
			emit("exhaustive", len(kinds) >= 3, (&W{}).Int(6).I64(0).Int(ab[0]).Int(ab[1]).Ints(seqInts(10, 2*len(ops)+2)).Ints(ops))
		})
	}
	// ---- exhaustive: histories with Flush and real expiry (default expiry 50ms, op 5 sleeps past it) ----
	expOps := g.Pick(4, 5)
	pairs := [][2]int{{1, 1}, {2, 0}, {0, 2}, {3, 2}}[:g.Pick(2, 4)]
	for _, ab := range pairs {
		slicesOver([]int{0, 1, 2, 4, 5}, expOps, func(ops []int) {
			kinds := map[int]bool{}
			for _, o := range ops {
				kinds[o] = true
			}
			if kinds[5] {
				g.Count("Mixed: history with a sleep past the expiry")
			}
			jobs = append(jobs, &c18Job{in: (&W{}).Int(6).I64(c18Short).Int(ab[0]).Int(ab[1]).Ints(seqInts(10, 2*len(ops)+2)).Ints(ops).Out(),
				nt: kinds[5] && len(kinds) >= 3})
		})
	}
	flush("exhaustive", "Mixed")
	g.Exhaustive("exhaustive")
	// ---- malformed / boundary ----
	emit("malformed", true, (&W{}).Int(1).Int(1<<40).Int(3))
	emit("malformed", true, (&W{}).Int(1).Int(-(1 << 40)).Int(3))
	emit("malformed", true, (&W{}).Int(2).I64(0).Int(3).Int(5).Ints(nil))
	emit("malformed", true, (&W{}).Int(3).I64(-1).Int(4).Ints(nil))
	emit("malformed", true, (&W{}).Int(4).Int(3000).Int(0).Ints([]int{0, 0, 0, 1}))
	emit("malformed", true, (&W{}).Int(4).Int(-(1 << 40)).Int(0).Ints([]int{1}))
	emit("malformed", true, (&W{}).Int(5).Int(-(1 << 40)).Int(1).Int(0).Ints([]int{1}))
	emit("malformed", true, (&W{}).Int(5).Int(3).Int(0).Int(0).Ints([]int{0, 0, 0}))
	emit("malformed", true, (&W{}).Int(5).Int(3).Int(-5).Int(0).Ints([]int{0, 0, 0}))
	emit("malformed", true, (&W{}).Int(6).I64(c18Hour).Int(-3).Int(0).Ints(nil).Ints([]int{3, 3, 0, 1, 2, 3, 2}))
	emit("malformed", true, (&W{}).Int(6).I64(-1).Int(1).Int(-1).Ints([]int{4}).Ints([]int{5, 0, 5, 4, 1, 2, 5, 0, 2}))
	emit("malformed", true, (&W{}).Int(7).Int(3).Int(0).Int(0).Ints([]int{0, 0, 0}).Ints([]int{5, 5, 5}))
	emit("malformed", true, (&W{}).Int(7).Int(2).Int(1).Int(0).Ints(nil).Ints([]int{1, 99, 3, 3}))
	// ---- seeded random, larger ----
	nr := g.Pick(3000, 40000)
	for i := 0; i < nr; i++ {
		def := defs[g.Rng.Intn(3)]
		switch g.Rng.Intn(5) {
		case 0:
			n, m := g.Rng.Intn(50)-5, g.Rng.Intn(70)
			emit("random", m > n && n >= 1, (&W{}).Int(1).Int(n).Int(m))
		case 1:
			n, m := g.Rng.Intn(50)-5, g.Rng.Intn(70)
			emit("random", m > n && n >= 1, (&W{}).Int(2).I64(def).Int(n).Int(m).Ints(randSlice(g.Rng, 80, -3, 3)))
		case 2:
			m := g.Rng.Intn(40)
			emit("random", m >= 2, (&W{}).Int(3).I64(def).Int(m).Ints(randSlice(g.Rng, 6, -3, 3)))
		case 3:
			n := g.Rng.Intn(45) - 4
			pat := make([]int, g.Rng.Intn(50))
			p := g.Rng.Intn(4) // success probability 0, 1/8, 1/4, 3/8 ... long failure runs matter
			for j := range pat {
				if g.Rng.Intn(8) < p {
					pat[j] = 1
				}
			}
			fails := 0
			for fails < len(pat) && pat[fails] == 0 {
				fails++
			}
			emit("random", n >= 2 && fails >= 1, (&W{}).Int(4).Int(n).Int(g.Rng.Intn(100)-50).Ints(pat))
		case 4:
			ops := make([]int, g.Rng.Intn(24))
			kinds := map[int]bool{}
			short := g.Rng.Intn(25) == 0 // a few long histories with real expiry
			if short {
				def = c18Short
			}
			sleeps := 0
			for j := range ops {
				ops[j] = []int{0, 0, 1, 1, 2, 2, 3, 4, 5}[g.Rng.Intn(9)]
				// never sleep for an hour; at most 3 real sleeps per history
				if ops[j] == 5 && (def == c18Hour || (short && sleeps >= 3)) {
					ops[j] = 4
				}
				if ops[j] == 5 {
					sleeps++
				}
				kinds[ops[j]] = true
			}
			in := (&W{}).Int(6).I64(def).Int(g.Rng.Intn(8) - 1).Int(g.Rng.Intn(8) - 1).
				Ints(randSlice(g.Rng, 30, -3, 3)).Ints(ops)
			if short {
				jobs = append(jobs, &c18Job{in: in.Out(), nt: len(kinds) >= 3})
			} else {
				emit("random", len(kinds) >= 3, in)
			}
		}
	}
	flush("random", "Mixed")
}

type c18Job struct {
	in  []int64
	nt  bool
	obs []int64
}

// c18Parallel executes cases that mostly sleep on a pool of goroutines.
func c18Parallel(jobs []*c18Job, workers int) {
	var wg sync.WaitGroup
	ch := make(chan *c18Job)
	for w := 0; w < workers; w++ {
		wg.Add(1)
		go func() {
			defer wg.Done()
			for j := range ch {
				j.obs = execC18(j.in)
			}
		}()
	}
	for _, j := range jobs {
		ch <- j
	}
	close(ch)
	wg.Wait()
}

func init() {
	register(&Prop{ID: "C18", Exec: execC18, Gen: genC18, Describe: describeC18,
		Rule: "exhaustive: After and Before for every n in -2..8 x 0..12 calls (Before on caches with default expiry 0 / NoExpiration / 1h, distinct and repeating callback results), Once for 0..12 calls, Retry for every n in -2..8 x every success/failure pattern of length 0..8, RetryWithDelay(d in {1ms,3ms}) for n in -2..4 x patterns of length <= 4 (thorough: -2..8 x <= 8) with instant callbacks, RetryWithDelay(d = 2ms; thorough also 4ms) for n in -1..4 (thorough 5) x first success at every position or none x EVERY assignment of a duration in {0, d/2, 2.5d} to every attempt — each gap measured from the return of an attempt to the start of the next, all timing checks being lower bounds — every history of length <= 5 (thorough 7) over {Before(&A), Before(&B), Once, Delete(\"func\")} on one shared non-expiring cache for 4 counter pairs, and every history of length <= 4 (thorough 5) over {Before(&A), Before(&B), Once, Flush(), sleep past the expiry} on a cache with a 50ms default expiry for 2 (thorough 4) counter pairs; extreme: After, Before and Retry with n at and within 3 of MaxInt, MinInt, +-2^31, +-2^62 and 0..5 calls; int8: After and Before instantiated with an int8 counter, n in {-128,-127,-100,-2,0,1,5,100,127} x up to 600 calls; large: n in {100,127,128,255,256,1000,4095,4096} with up to 2n+77 calls and Retry patterns of n+5; then seeded random (n up to 44, up to 69 calls, patterns up to 49, mixed histories up to 23 operations incl. Flush and sleeps, 1 in 25 with real 50ms expiry). Every callback counts its invocations per wrapper call. non-trivial = the history crosses the threshold (calls > n >= 1) / Once called >= 2 times / Retry with n >= 2 and >= 1 failure before the outcome / slow-attempt case with >= 1 slow attempt that is followed by another attempt / mixed history using >= 3 kinds of operation (expiry family: a sleep and >= 2 other kinds) / extreme and int8 with >= 2 calls; distinct = distinct wire input"})
}
