package main

import (
	"fmt"
	"strings"
	"sync"
	"time"

	"github.com/esimov/gogu/list"
)

// C19 wire (mirror of coq/theories/C19_Wire.v)
//
//	input  = kind :: init :: concat [code a b]          kind 0 = SList, 1 = DList
//	codes: 1 Unshift a   2 Append a   3 InsertAfter(Find a, b)   4 InsertBefore(Find a, b)
//	       5 Replace(a, b)   6 Delete(Find a)   7 Shift   8 Pop   9 Find a
//	       10 First   11 Last   12 Clear
//	output = per step: result ++ enc_zs(Each sequence) ++ [First Last] (DList only)
//	result: [0] nil error / nothing returned, [1 1] an error was returned, [0 b] Find,
//	        [0 v] First/Last, [1 2] Delete skipped because Find found no node,
//	        [1 9] the list type has no such method; [2] recovered panic, [3] hang: the case ends.
//
// Handles are always taken from Find immediately before use.  A failed Find
// yields a nil handle: InsertAfter/InsertBefore are called with it (the code
// answers with an error), Delete is NOT called (Delete(nil) dereferences nil;
// a nil handle is not "a node obtained from Find").
const (
	c19Unshift = iota + 1
	c19Append
	c19InsertAfter
	c19InsertBefore
	c19Replace
	c19Delete
	c19Shift
	c19Pop
	c19Find
	c19First
	c19Last
	c19Clear
)

var c19Names = []string{"?", "Unshift", "Append", "InsertAfter", "InsertBefore", "Replace", "Delete", "Shift", "Pop", "Find", "First", "Last", "Clear"}

// c19EachLimit bounds the callbacks of one Each: a list of a 200-step history
// has at most 201 nodes, so more calls mean the next-chain is cyclic and Each
// would never return.  The callback then aborts the traversal cooperatively
// (no spinning goroutine is leaked) and the step is recorded as a hang.
const c19EachLimit = 100000

type c19Hang struct{}

// c19List is one list under test behind a type-independent face.
type c19List struct {
	dlist bool
	call  func(code, a, b int) []int64 // one operation, result encoded
	each  func(fn func(int))
	first func() int
	last  func() int
}

func errRes(err error) []int64 {
	if err != nil {
		return []int64{1, 1}
	}
	return []int64{0}
}

func c19NewS(v int) *c19List {
	l := list.Init(v)
	return &c19List{
		each: l.Each,
		call: func(code, a, b int) []int64 {
			switch code {
			case c19Unshift:
				l.Unshift(a)
			case c19Append:
				l.Append(a)
			case c19InsertAfter:
				n, _ := l.Find(a)
				return errRes(l.InsertAfter(n, b))
			case c19Replace:
				return errRes(l.Replace(a, b))
			case c19Delete:
				n, ok := l.Find(a)
				if !ok {
					return []int64{1, 2}
				}
				return errRes(l.Delete(n))
			case c19Shift:
				l.Shift()
			case c19Pop:
				l.Pop()
			case c19Find:
				n, ok := l.Find(a)
				if ok && (n == nil || n.Value != a) {
					return []int64{0, 7} // found a node that does not carry the value
				}
				return []int64{0, b2i(ok)}
			default:
				return []int64{1, 9}
			}
			return []int64{0}
		},
	}
}

func c19NewD(v int) *c19List {
	l := list.InitDList(v)
	return &c19List{
		dlist: true,
		each:  l.Each,
		first: l.First,
		last:  l.Last,
		call: func(code, a, b int) []int64 {
			switch code {
			case c19Unshift:
				l.Unshift(a)
			case c19Append:
				l.Append(a)
			case c19InsertAfter:
				n, _ := l.Find(a)
				return errRes(l.InsertAfter(n, b))
			case c19InsertBefore:
				n, _ := l.Find(a)
				return errRes(l.InsertBefore(n, b))
			case c19Replace:
				return errRes(l.Replace(a, b))
			case c19Delete:
				n, ok := l.Find(a)
				if !ok {
					return []int64{1, 2}
				}
				return errRes(l.Delete(n))
			case c19Shift:
				l.Shift()
			case c19Pop:
				l.Pop()
			case c19Find:
				n, ok := l.Find(a)
				if ok && (n == nil || n.Value != a) {
					return []int64{0, 7}
				}
				return []int64{0, b2i(ok)}
			case c19First:
				return []int64{0, int64(l.First())}
			case c19Last:
				return []int64{0, int64(l.Last())}
			case c19Clear:
				l.Clear()
			default:
				return []int64{1, 9}
			}
			return []int64{0}
		},
	}
}

// c19Guard runs f; reports a panic, or a hang when f gave up through c19Hang.
func c19Guard(f func()) (panicked, hung bool) {
	defer func() {
		if r := recover(); r != nil {
			if _, ok := r.(c19Hang); ok {
				hung = true
			} else {
				panicked = true
			}
		}
	}()
	f()
	return
}

// c19Run executes the whole history, appending to *out under mu; it stops at
// the first panic or (cooperatively detected) hang.
func c19Run(in []int64, out *[]int64, mu *sync.Mutex, abandoned *bool) {
	emit := func(xs ...int64) bool {
		mu.Lock()
		defer mu.Unlock()
		if *abandoned {
			return false
		}
		*out = append(*out, xs...)
		return true
	}
	r := &R{w: in}
	kind, init := r.Int(), r.Int()
	var l *c19List
	switch kind {
	case 0:
		l = c19NewS(init)
	case 1:
		l = c19NewD(init)
	default:
		emit(-999999)
		return
	}
	rest := r.Rest()
	for i := 0; i+3 <= len(rest); i += 3 {
		code, a, b := int(rest[i]), int(rest[i+1]), int(rest[i+2])
		if code < 1 || code > 12 {
			mu.Lock()
			*out = []int64{-999999}
			mu.Unlock()
			return
		}
		var res []int64
		if p, h := c19Guard(func() { res = l.call(code, a, b) }); p || h {
			if p {
				emit(2)
			} else {
				emit(3)
			}
			return
		}
		var seq []int64
		p, h := c19Guard(func() {
			n := 0
			l.each(func(v int) {
				n++
				if n > c19EachLimit {
					panic(c19Hang{})
				}
				seq = append(seq, int64(v))
			})
		})
		if p || h {
			// as in the model (C19_Model.run_from): a step whose observation
			// fails contributes only the panic / hang marker
			if p {
				emit(2)
			} else {
				emit(3)
			}
			return
		}
		step := append(res, int64(len(seq)))
		step = append(step, seq...)
		if l.dlist {
			var f, la int
			if p, _ := c19Guard(func() { f = l.first(); la = l.last() }); p {
				emit(2)
				return
			}
			step = append(step, int64(f), int64(la))
		}
		if !emit(step...) {
			return
		}
	}
	if len(rest)%3 != 0 {
		mu.Lock()
		*out = []int64{-999999}
		mu.Unlock()
	}
}

// execC19: the history runs in its own goroutine under a 2 s guard, so that a
// loop over a cyclic chain that Each did not expose first (it always does for
// chains reachable from the head) is an observation, never a harness crash.
func execC19(in []int64) []int64 {
	var mu sync.Mutex
	var out []int64
	abandoned := false
	done := make(chan struct{})
	go func() {
		defer close(done)
		defer func() { recover() }()
		c19Run(in, &out, &mu, &abandoned)
	}()
	select {
	case <-done:
		return out
	case <-time.After(2*time.Second + time.Duration(len(in))*time.Millisecond):
		mu.Lock()
		defer mu.Unlock()
		abandoned = true
		return append(append([]int64{}, out...), 3)
	}
}

// ---------- generator ----------

// c19Ref is the reference sequence used ONLY to steer generation (which values
// are present, how long the list is) and to classify cases; it decides nothing.
type c19Ref struct {
	xs    []int
	dlist bool
}

func (s *c19Ref) has(a int) bool {
	for _, x := range s.xs {
		if x == a {
			return true
		}
	}
	return false
}

func (s *c19Ref) idx(a int) int {
	for i, x := range s.xs {
		if x == a {
			return i
		}
	}
	return -1
}

// apply mirrors C19_Model.spec_step; returns whether the op replaced the head
// node (Unshift, Shift, Delete/InsertBefore at the head) and whether it used a
// Find handle on a present node.
func (s *c19Ref) apply(code, a, b int) (headEdit, handle bool) {
	i := s.idx(a)
	switch code {
	case c19Unshift:
		s.xs = append([]int{a}, s.xs...)
		return true, false
	case c19Append:
		s.xs = append(s.xs, a)
	case c19InsertAfter:
		if i >= 0 {
			s.xs = append(s.xs[:i+1], append([]int{b}, s.xs[i+1:]...)...)
			return false, true
		}
	case c19InsertBefore:
		if i >= 0 && s.dlist {
			s.xs = append(s.xs[:i], append([]int{b}, s.xs[i:]...)...)
			return i == 0, true
		}
	case c19Replace:
		if i >= 0 {
			s.xs[i] = b
		}
	case c19Delete:
		if i >= 0 {
			if len(s.xs) > 1 {
				s.xs = append(s.xs[:i], s.xs[i+1:]...)
			}
			return i == 0, true
		}
	case c19Shift:
		if len(s.xs) > 1 {
			s.xs = s.xs[1:]
			return true, false
		} else if s.dlist {
			s.xs = []int{0}
		}
	case c19Pop:
		if len(s.xs) > 1 {
			s.xs = s.xs[:len(s.xs)-1]
		}
	case c19Clear:
		if s.dlist {
			s.xs = s.xs[:1]
		}
	}
	return false, false
}

const c19Absent = 99 // a value that is never inserted

type c19Op struct{ code, a, b int }

func c19Wire(kind, init int, ops []c19Op) []int64 {
	w := (&W{}).Int(kind).Int(init)
	for _, o := range ops {
		w.Int(o.code).Int(o.a).Int(o.b)
	}
	return w.Out()
}

// c19Nontrivial: a head-replacing edit is followed, later, by an edit through a
// Find handle on a present node (the combination the scripts in the package
// tests never try).
func c19Classify(kind, init int, ops []c19Op) (nontrivial bool, minLen, maxLen int) {
	s := &c19Ref{xs: []int{init}, dlist: kind == 1}
	headSeen := false
	minLen, maxLen = 1, 1
	for _, o := range ops {
		he, h := s.apply(o.code, o.a, o.b)
		if h && headSeen {
			nontrivial = true
		}
		if he {
			headSeen = true
		}
		if len(s.xs) < minLen {
			minLen = len(s.xs)
		}
		if len(s.xs) > maxLen {
			maxLen = len(s.xs)
		}
	}
	return
}

// c19Enumerate calls emit for every history of exactly n further steps after
// prefix, inserted values fresh (2, 3, ...), referenced values = every value
// present in the reference sequence plus one absent value.  full=false leaves
// out the pure observers (Find/First/Last as operations — they are observed
// after every step anyway), Clear and the absent-value variants.
func c19Enumerate(kind, n int, full bool, emit func(ops []c19Op)) {
	var ops []c19Op
	var rec func(s *c19Ref, fresh, left int)
	rec = func(s *c19Ref, fresh, left int) {
		if left == 0 {
			emit(ops)
			return
		}
		try1 := func(o c19Op, usedFresh bool) {
			t := &c19Ref{xs: cloneInts(s.xs), dlist: s.dlist}
			t.apply(o.code, o.a, o.b)
			ops = append(ops, o)
			nf := fresh
			if usedFresh {
				nf++
			}
			rec(t, nf, left-1)
			ops = ops[:len(ops)-1]
		}
		refs := cloneInts(s.xs)
		if full {
			refs = append(refs, c19Absent)
		}
		try1(c19Op{c19Unshift, fresh, 0}, true)
		try1(c19Op{c19Append, fresh, 0}, true)
		for _, a := range refs {
			try1(c19Op{c19InsertAfter, a, fresh}, true)
			if kind == 1 {
				try1(c19Op{c19InsertBefore, a, fresh}, true)
			}
			try1(c19Op{c19Delete, a, 0}, false)
			if full {
				try1(c19Op{c19Replace, a, fresh}, true)
			}
		}
		if !full {
			// one Replace per state keeps the value-rewriting path in the core scope
			try1(c19Op{c19Replace, s.xs[len(s.xs)/2], fresh}, true)
		}
		try1(c19Op{c19Shift, 0, 0}, false)
		try1(c19Op{c19Pop, 0, 0}, false)
		if full {
			for _, a := range refs {
				try1(c19Op{c19Find, a, 0}, false)
			}
			if kind == 1 {
				try1(c19Op{c19First, 0, 0}, false)
				try1(c19Op{c19Last, 0, 0}, false)
				try1(c19Op{c19Clear, 0, 0}, false)
			}
		}
	}
	rec(&c19Ref{xs: []int{1}, dlist: kind == 1}, 2, n)
}

func c19Count(g *Gen, kind int, ops []c19Op, nt bool, minLen, maxLen int) {
	if kind == 0 {
		g.Count("type:SList")
	} else {
		g.Count("type:DList")
	}
	g.Count(fmt.Sprintf("steps:%d", len(ops)/10*10))
	for _, o := range ops {
		g.Count("op:" + c19Names[o.code])
	}
	g.Count(fmt.Sprintf("maxlen:%d", maxLen/4*4))
	if minLen == 1 && maxLen > 1 {
		g.Count("hit:shrinks-to-one-and-or-grows")
	}
	if nt {
		g.Count("hit:head-edit-then-handle-edit")
	}
}

func genC19(g *Gen) {
	emit := func(stream string, kind int, ops []c19Op) {
		nt, mn, mx := c19Classify(kind, 1, ops)
		c19Count(g, kind, ops, nt, mn, mx)
		g.Case(stream, nt, c19Wire(kind, 1, ops))
	}
	// exhaustive: every history up to fullLen over the full alphabet, and up to
	// coreLen over the mutators with present handles
	for kind := 0; kind <= 1; kind++ {
		fullLen := g.Pick(4, 5-kind) // thorough: SList 5, DList 4 (2.7 M DList histories of 5 full-alphabet steps are left to the core scope)
		coreLen := g.Pick(5, 6)
		for n := 0; n <= fullLen; n++ {
			c19Enumerate(kind, n, true, func(ops []c19Op) { emit("exhaustive", kind, ops) })
		}
		for n := fullLen + 1; n <= coreLen; n++ {
			c19Enumerate(kind, n, false, func(ops []c19Op) { emit("exhaustive", kind, ops) })
		}
	}
	g.Exhaustive("exhaustive")

	// random: long histories, fresh values, handles mostly on present values
	nrand := g.Pick(300, 4000)
	for c := 0; c < nrand; c++ {
		kind := g.Rng.Intn(2)
		steps := 200
		if c%4 == 0 {
			steps = 20 + g.Rng.Intn(60)
		}
		target := 1 + g.Rng.Intn(12) // the length the history hovers around
		s := &c19Ref{xs: []int{1}, dlist: kind == 1}
		fresh := 2
		var ops []c19Op
		for i := 0; i < steps; i++ {
			ref := func() int {
				if g.Rng.Intn(10) == 0 {
					return c19Absent + g.Rng.Intn(3)*1000
				}
				return s.xs[g.Rng.Intn(len(s.xs))]
			}
			grow := len(s.xs) < target || g.Rng.Intn(4) == 0
			var o c19Op
			switch x := g.Rng.Intn(10); {
			case x < 5 && grow:
				switch g.Rng.Intn(4) {
				case 0:
					o = c19Op{c19Unshift, fresh, 0}
				case 1:
					o = c19Op{c19Append, fresh, 0}
				case 2:
					o = c19Op{c19InsertAfter, ref(), fresh}
				default:
					if kind == 1 {
						o = c19Op{c19InsertBefore, ref(), fresh}
					} else {
						o = c19Op{c19InsertAfter, ref(), fresh}
					}
				}
				fresh++
			case x < 5:
				switch g.Rng.Intn(4) {
				case 0:
					o = c19Op{c19Shift, 0, 0}
				case 1:
					o = c19Op{c19Pop, 0, 0}
				default:
					o = c19Op{c19Delete, ref(), 0}
				}
			case x < 7:
				o = c19Op{c19Replace, ref(), fresh}
				fresh++
			case x < 8:
				o = c19Op{c19Find, ref(), 0}
			default:
				// an edit at the head, whatever the target
				switch g.Rng.Intn(4) {
				case 0:
					o = c19Op{c19Unshift, fresh, 0}
					fresh++
				case 1:
					o = c19Op{c19Shift, 0, 0}
				case 2:
					o = c19Op{c19Delete, s.xs[0], 0}
				default:
					if kind == 1 {
						o = c19Op{c19InsertBefore, s.xs[0], fresh}
					} else {
						o = c19Op{c19InsertAfter, s.xs[0], fresh}
					}
					fresh++
				}
			}
			if kind == 1 && g.Rng.Intn(40) == 0 {
				o = c19Op{[]int{c19First, c19Last, c19Clear}[g.Rng.Intn(3)], 0, 0}
			}
			s.apply(o.code, o.a, o.b)
			ops = append(ops, o)
		}
		emit("random", kind, ops)
	}

	// malformed: outside the property's quantifier but inside the model — values
	// that repeat (Replace/insert of a value already present), absent handles
	// everywhere, methods the list type does not have
	nmal := g.Pick(300, 3000)
	for c := 0; c < nmal; c++ {
		kind := g.Rng.Intn(2)
		steps := 1 + g.Rng.Intn(12)
		var ops []c19Op
		for i := 0; i < steps; i++ {
			v := func() int { return 1 + g.Rng.Intn(4) }
			code := 1 + g.Rng.Intn(12)
			ops = append(ops, c19Op{code, v(), v()})
		}
		init := 1 + g.Rng.Intn(4)
		nt, mn, mx := c19Classify(kind, init, ops)
		c19Count(g, kind, ops, nt, mn, mx)
		g.Count("malformed:repeating-values")
		g.Case("malformed", nt, c19Wire(kind, init, ops))
	}
}

func describeC19(in []int64) string {
	if len(in) < 2 {
		return "malformed"
	}
	var sb strings.Builder
	if in[0] == 0 {
		fmt.Fprintf(&sb, "l := list.Init(%d)", in[1])
	} else {
		fmt.Fprintf(&sb, "l := list.InitDList(%d)", in[1])
	}
	rest := in[2:]
	for i := 0; i+3 <= len(rest); i += 3 {
		code, a, b := int(rest[i]), rest[i+1], rest[i+2]
		sb.WriteString("; ")
		switch code {
		case c19Unshift, c19Append:
			fmt.Fprintf(&sb, "l.%s(%d)", c19Names[code], a)
		case c19InsertAfter, c19InsertBefore:
			fmt.Fprintf(&sb, "l.%s(Find(%d), %d)", c19Names[code], a, b)
		case c19Replace:
			fmt.Fprintf(&sb, "l.Replace(%d, %d)", a, b)
		case c19Delete:
			fmt.Fprintf(&sb, "l.Delete(Find(%d))", a)
		case c19Find:
			fmt.Fprintf(&sb, "l.Find(%d)", a)
		default:
			if code >= 1 && code <= 12 {
				fmt.Fprintf(&sb, "l.%s()", c19Names[code])
			} else {
				fmt.Fprintf(&sb, "?%d", code)
			}
		}
	}
	sb.WriteString("   [Each, First/Last observed after every step]")
	return sb.String()
}

func init() {
	register(&Prop{
		ID: "C19",
		Rule: "histories on list.SList and list.DList from a one-element list: exhaustive up to the tier's bound " +
			"(full alphabet incl. observers, absent values and Clear up to 4 steps, thorough 5 for SList; mutators with present Find handles up to 5 steps, thorough 6), " +
			"fresh distinct inserted values, handles from Find immediately before use; then seeded random histories of 200 steps, " +
			"and a malformed stream with repeating values. After every step the Each sequence and (DList) First/Last are recorded. " +
			"non-trivial = an operation that replaces the embedded head node (Unshift, Shift, Delete or InsertBefore at the head) " +
			"is followed later by InsertAfter/InsertBefore/Delete through a Find handle on a present node",
		Exec:     execC19,
		Gen:      genC19,
		Describe: describeC19,
	})
}
