package main

import (
	"fmt"
	"strconv"
	"strings"
	"sync"
	"time"

	"github.com/esimov/gogu/list"
)

// C19 wire (mirror of coq/theories/C19_Wire.v)
//
//	input  = kind :: init :: concat [code a b]          kind 0 = SList, 1 = DList (+4: at string, +8: at a struct, see c19New;
//	                                                    +12 / +16 / +20: at float64 / a struct with a float field / any, values are element CODES, see c19nan.go)
//	codes: 1 Unshift a   2 Append a   3 InsertAfter(Find a, b)   4 InsertBefore(Find a, b)
//	       5 Replace(a, b)   6 Delete(Find a)   7 Shift   8 Pop   9 Find a
//	       10 First   11 Last   12 Clear
//	output = per step: result ++ enc_zs(Each sequence) ++ [First Last] (DList only)
//	result: [0] nil error / nothing returned, [1 1] an error was returned, [0 b] Find,
//	        [0 v] First/Last, [1 2] Delete skipped because Find found no node,
//	        [1 9] the list type has no such method; [2] recovered panic, [3] hang: the case ends.
//
// Checkpointed histories (the "large" stream): kind 2 = SList, 3 = DList, the same records plus
// code 13 = Look.  Per record only the call's result is written; a Look writes
// enc_zs(Each sequence) ++ [First Last] (DList only).
//
// Handles are always taken from Find immediately before use.  A failed Find
// yields a nil handle: InsertAfter/InsertBefore are called with it (the code
// answers with an error), Delete is NOT called (Delete(nil) dereferences nil;
// a nil handle is not "a node obtained from Find").
const (
	c19Unshift = iota + 1
	c19Append
	c19InsertAfter
	c19InsertBefore
	c19Replace
	c19Delete
	c19Shift
	c19Pop
	c19Find
	c19First
	c19Last
	c19Clear
	c19Look // checkpointed histories only
)

var c19Names = []string{"?", "Unshift", "Append", "InsertAfter", "InsertBefore", "Replace", "Delete", "Shift", "Pop", "Find", "First", "Last", "Clear", "Look"}

// c19EachLimit bounds the callbacks of one Each: the longest list any stream
// builds has about 10^4 nodes, so more calls mean the next-chain is cyclic and Each
// would never return.  The callback then aborts the traversal cooperatively
// (no spinning goroutine is leaked) and the step is recorded as a hang.
const c19EachLimit = 100000

type c19Hang struct{}

// c19List is one list under test behind a type-independent face.
type c19List struct {
	dlist bool
	call  func(code, a, b int) []int64 // one operation, result encoded
	each  func(fn func(int))
	first func() int
	last  func() int
}

func errRes(err error) []int64 {
	if err != nil {
		return []int64{1, 1}
	}
	return []int64{0}
}

// The lists are generic in a comparable element type and use == on values in Find / Replace /
// Delete.  Every operation of the harness goes through a codec int -> T (enc) and back (dec), so the
// wire and the model are the same for every instantiation; enc builds a NEW value for every use.
func c19NewSG[T comparable](v int, enc func(int) T, dec func(T) int) *c19List {
	return c19NewSGEq(v, enc, dec, func(found, asked int) bool { return found == asked })
}

// same(found, asked): does the node Find returned carry a value that is == to the one asked for
// (the identity of codes, except for the element types of c19nan.go)
func c19NewSGEq[T comparable](v int, enc func(int) T, dec func(T) int, same func(found, asked int) bool) *c19List {
	l := list.Init(enc(v))
	return &c19List{
		each: func(fn func(int)) { l.Each(func(x T) { fn(dec(x)) }) },
		call: func(code, a, b int) []int64 {
			switch code {
			case c19Unshift:
				l.Unshift(enc(a))
			case c19Append:
				l.Append(enc(a))
			case c19InsertAfter:
				n, _ := l.Find(enc(a))
				return errRes(l.InsertAfter(n, enc(b)))
			case c19Replace:
				return errRes(l.Replace(enc(a), enc(b)))
			case c19Delete:
				n, ok := l.Find(enc(a))
				if !ok {
					return []int64{1, 2}
				}
				return errRes(l.Delete(n))
			case c19Shift:
				l.Shift()
			case c19Pop:
				l.Pop()
			case c19Find:
				n, ok := l.Find(enc(a))
				if ok && (n == nil || !same(dec(n.Value), a)) {
					return []int64{0, 7} // found a node that does not carry the value
				}
				return []int64{0, b2i(ok)}
			default:
				return []int64{1, 9}
			}
			return []int64{0}
		},
	}
}

func c19NewDG[T comparable](v int, enc func(int) T, dec func(T) int) *c19List {
	return c19NewDGEq(v, enc, dec, func(found, asked int) bool { return found == asked })
}

func c19NewDGEq[T comparable](v int, enc func(int) T, dec func(T) int, same func(found, asked int) bool) *c19List {
	l := list.InitDList(enc(v))
	return &c19List{
		dlist: true,
		each:  func(fn func(int)) { l.Each(func(x T) { fn(dec(x)) }) },
		first: func() int { return dec(l.First()) },
		last:  func() int { return dec(l.Last()) },
		call: func(code, a, b int) []int64 {
			switch code {
			case c19Unshift:
				l.Unshift(enc(a))
			case c19Append:
				l.Append(enc(a))
			case c19InsertAfter:
				n, _ := l.Find(enc(a))
				return errRes(l.InsertAfter(n, enc(b)))
			case c19InsertBefore:
				n, _ := l.Find(enc(a))
				return errRes(l.InsertBefore(n, enc(b)))
			case c19Replace:
				return errRes(l.Replace(enc(a), enc(b)))
			case c19Delete:
				n, ok := l.Find(enc(a))
				if !ok {
					return []int64{1, 2}
				}
				return errRes(l.Delete(n))
			case c19Shift:
				l.Shift()
			case c19Pop:
				l.Pop()
			case c19Find:
				n, ok := l.Find(enc(a))
				if ok && (n == nil || !same(dec(n.Value), a)) {
					return []int64{0, 7}
				}
				return []int64{0, b2i(ok)}
			case c19First:
				return []int64{0, int64(dec(l.First()))}
			case c19Last:
				return []int64{0, int64(dec(l.Last()))}
			case c19Clear:
				l.Clear()
			default:
				return []int64{1, 9}
			}
			return []int64{0}
		},
	}
}

// ---------- the instantiations: wire kind = base + 4*instance ----------
//
//	instance 0: T = int, the identity codec
//	instance 1: T = string.    0 <-> ""  (the zero value: DList.Shift zeroes the only value), v <-> "#<decimal v>"
//	instance 2: T = c19Rec.    0 <-> c19Rec{},  v <-> {Name: "#<decimal v/2>", N: v%2}  (both fields needed)
//
// The strings are assembled in a fresh byte slice at EVERY use (at least two bytes long: the runtime
// shares the storage of one-byte strings, strconv.Itoa that of small numbers), so two equal values
// never share their backing array: an implementation that compares representations instead of
// values (right for ints) is wrong here.  A value that decodes to nothing is reported as c19Garbage.
const c19Garbage = -888888

type c19Rec struct {
	Name string
	N    int
}

func c19Str(v int) string {
	b := make([]byte, 0, 12)
	b = append(b, '#')
	b = strconv.AppendInt(b, int64(v), 10)
	return string(b)
}

func c19UnStr(s string) (int, bool) {
	if len(s) < 2 || s[0] != '#' {
		return 0, false
	}
	v, err := strconv.Atoi(s[1:])
	return v, err == nil
}

func c19EncInt(v int) int { return v }
func c19DecInt(v int) int { return v }

func c19EncString(v int) string {
	if v == 0 {
		return ""
	}
	return c19Str(v)
}

func c19DecString(s string) int {
	if s == "" {
		return 0
	}
	if v, ok := c19UnStr(s); ok && v != 0 {
		return v
	}
	return c19Garbage
}

func c19EncRec(v int) c19Rec {
	if v == 0 {
		return c19Rec{}
	}
	return c19Rec{Name: c19Str(v / 2), N: v % 2}
}

func c19DecRec(r c19Rec) int {
	if r == (c19Rec{}) {
		return 0
	}
	q, ok := c19UnStr(r.Name)
	if !ok || r.N < -1 || r.N > 1 {
		return c19Garbage
	}
	v := 2*q + r.N
	if v == 0 || v/2 != q || v%2 != r.N {
		return c19Garbage
	}
	return v
}

var c19InstNames = []string{"int", "string", "struct{Name string; N int}", "float64", "struct{X float64; N int}", "any"}

// c19New builds the list for a wire kind: base = kind%4 (0 SList, 1 DList, 2/3 the same with
// checkpointed records), instance = kind/4.
func c19New(kind, v int) *c19List {
	dl := kind%2 == 1
	switch kind / 4 {
	case 0:
		if dl {
			return c19NewDG(v, c19EncInt, c19DecInt)
		}
		return c19NewSG(v, c19EncInt, c19DecInt)
	case 1:
		if dl {
			return c19NewDG(v, c19EncString, c19DecString)
		}
		return c19NewSG(v, c19EncString, c19DecString)
	case 2:
		if dl {
			return c19NewDG(v, c19EncRec, c19DecRec)
		}
		return c19NewSG(v, c19EncRec, c19DecRec)
	}
	return c19NewNaN(kind, v) // instances 3..5: element types whose == is not the identity (c19nan.go)
}

// c19Guard runs f; reports a panic, or a hang when f gave up through c19Hang.
func c19Guard(f func()) (panicked, hung bool) {
	defer func() {
		if r := recover(); r != nil {
			if _, ok := r.(c19Hang); ok {
				hung = true
			} else {
				panicked = true
			}
		}
	}()
	f()
	return
}

// c19Run executes the whole history, appending to *out under mu; it stops at
// the first panic or (cooperatively detected) hang.
func c19Run(in []int64, out *[]int64, mu *sync.Mutex, abandoned *bool) {
	emit := func(xs ...int64) bool {
		mu.Lock()
		defer mu.Unlock()
		if *abandoned {
			return false
		}
		*out = append(*out, xs...)
		return true
	}
	r := &R{w: in}
	kind, init := r.Int(), r.Int()
	if kind < 0 || kind > 23 {
		emit(-999999)
		return
	}
	l := c19New(kind, init)
	quiet := kind%4 >= 2 // checkpointed: the list is looked at only by Look records
	maxCode := c19Clear
	if quiet {
		maxCode = c19Look
	}
	// look: Each, then (DList) First and Last; ok=false after a panic / hang marker was written
	look := func(prefix []int64) bool {
		var seq []int64
		p, h := c19Guard(func() {
			n := 0
			l.each(func(v int) {
				n++
				if n > c19EachLimit {
					panic(c19Hang{})
				}
				seq = append(seq, int64(v))
			})
		})
		if p || h {
			// as in the model (C19_Model.run_from): a step whose observation
			// fails contributes only the panic / hang marker
			if p {
				emit(2)
			} else {
				emit(3)
			}
			return false
		}
		step := append(prefix, int64(len(seq)))
		step = append(step, seq...)
		if l.dlist {
			var f, la int
			if p, _ := c19Guard(func() { f = l.first(); la = l.last() }); p {
				emit(2)
				return false
			}
			step = append(step, int64(f), int64(la))
		}
		return emit(step...)
	}
	rest := r.Rest()
	for i := 0; i+3 <= len(rest); i += 3 {
		code, a, b := int(rest[i]), int(rest[i+1]), int(rest[i+2])
		if code < 1 || code > maxCode {
			mu.Lock()
			*out = []int64{-999999}
			mu.Unlock()
			return
		}
		if code == c19Look {
			if !look(nil) {
				return
			}
			continue
		}
		var res []int64
		if p, h := c19Guard(func() { res = l.call(code, a, b) }); p || h {
			if p {
				emit(2)
			} else {
				emit(3)
			}
			return
		}
		if quiet {
			if !emit(res...) {
				return
			}
			continue
		}
		if !look(res) {
			return
		}
	}
	if len(rest)%3 != 0 {
		mu.Lock()
		*out = []int64{-999999}
		mu.Unlock()
	}
}

// execC19: the history runs in its own goroutine under a 2 s guard, so that a
// loop over a cyclic chain that Each did not expose first (it always does for
// chains reachable from the head) is an observation, never a harness crash.
func execC19(in []int64) []int64 {
	var mu sync.Mutex
	var out []int64
	abandoned := false
	done := make(chan struct{})
	go func() {
		defer close(done)
		defer func() { recover() }()
		c19Run(in, &out, &mu, &abandoned)
	}()
	select {
	case <-done:
		return out
	case <-time.After(2*time.Second + time.Duration(len(in))*time.Millisecond):
		mu.Lock()
		defer mu.Unlock()
		abandoned = true
		return append(append([]int64{}, out...), 3)
	}
}

// ---------- generator ----------

// c19Ref is the reference sequence used ONLY to steer generation (which values
// are present, how long the list is) and to classify cases; it decides nothing.
type c19Ref struct {
	xs    []int
	dlist bool
}

func (s *c19Ref) has(a int) bool {
	for _, x := range s.xs {
		if x == a {
			return true
		}
	}
	return false
}

func (s *c19Ref) idx(a int) int {
	for i, x := range s.xs {
		if x == a {
			return i
		}
	}
	return -1
}

// apply mirrors C19_Model.spec_step; returns whether the op replaced the head
// node (Unshift, Shift, Delete/InsertBefore at the head) and whether it used a
// Find handle on a present node.
func (s *c19Ref) apply(code, a, b int) (headEdit, handle bool) {
	i := s.idx(a)
	switch code {
	case c19Unshift:
		s.xs = append([]int{a}, s.xs...)
		return true, false
	case c19Append:
		s.xs = append(s.xs, a)
	case c19InsertAfter:
		if i >= 0 {
			s.xs = append(s.xs[:i+1], append([]int{b}, s.xs[i+1:]...)...)
			return false, true
		}
	case c19InsertBefore:
		if i >= 0 && s.dlist {
			s.xs = append(s.xs[:i], append([]int{b}, s.xs[i:]...)...)
			return i == 0, true
		}
	case c19Replace:
		if i >= 0 {
			s.xs[i] = b
		}
	case c19Delete:
		if i >= 0 {
			if len(s.xs) > 1 {
				s.xs = append(s.xs[:i], s.xs[i+1:]...)
			}
			return i == 0, true
		}
	case c19Shift:
		if len(s.xs) > 1 {
			s.xs = s.xs[1:]
			return true, false
		} else if s.dlist {
			s.xs = []int{0}
		}
	case c19Pop:
		if len(s.xs) > 1 {
			s.xs = s.xs[:len(s.xs)-1]
		}
	case c19Clear:
		if s.dlist {
			s.xs = s.xs[:1]
		}
	}
	return false, false
}

const c19Absent = 99 // a value that is never inserted

type c19Op struct{ code, a, b int }

func c19Wire(kind, init int, ops []c19Op) []int64 {
	w := (&W{}).Int(kind).Int(init)
	for _, o := range ops {
		w.Int(o.code).Int(o.a).Int(o.b)
	}
	return w.Out()
}

// c19Nontrivial: a head-replacing edit is followed, later, by an edit through a
// Find handle on a present node (the combination the scripts in the package
// tests never try).
func c19Classify(kind, init int, ops []c19Op) (nontrivial bool, minLen, maxLen int) {
	s := &c19Ref{xs: []int{init}, dlist: kind == 1}
	headSeen := false
	minLen, maxLen = 1, 1
	for _, o := range ops {
		he, h := s.apply(o.code, o.a, o.b)
		if h && headSeen {
			nontrivial = true
		}
		if he {
			headSeen = true
		}
		if len(s.xs) < minLen {
			minLen = len(s.xs)
		}
		if len(s.xs) > maxLen {
			maxLen = len(s.xs)
		}
	}
	return
}

// c19Enumerate calls emit for every history of exactly n further steps after
// prefix, inserted values fresh (2, 3, ...), referenced values = every value
// present in the reference sequence plus one absent value.  full=false leaves
// out the pure observers (Find/First/Last as operations — they are observed
// after every step anyway), Clear and the absent-value variants.
func c19Enumerate(kind, n int, full bool, emit func(ops []c19Op)) {
	var ops []c19Op
	var rec func(s *c19Ref, fresh, left int)
	rec = func(s *c19Ref, fresh, left int) {
		if left == 0 {
			emit(ops)
			return
		}
		try1 := func(o c19Op, usedFresh bool) {
			t := &c19Ref{xs: cloneInts(s.xs), dlist: s.dlist}
			t.apply(o.code, o.a, o.b)
			ops = append(ops, o)
			nf := fresh
			if usedFresh {
				nf++
			}
			rec(t, nf, left-1)
			ops = ops[:len(ops)-1]
		}
		refs := cloneInts(s.xs)
		if full {
			refs = append(refs, c19Absent)
		}
		try1(c19Op{c19Unshift, fresh, 0}, true)
		try1(c19Op{c19Append, fresh, 0}, true)
		for _, a := range refs {
			try1(c19Op{c19InsertAfter, a, fresh}, true)
			if kind == 1 {
				try1(c19Op{c19InsertBefore, a, fresh}, true)
			}
			try1(c19Op{c19Delete, a, 0}, false)
			if full {
				try1(c19Op{c19Replace, a, fresh}, true)
			}
		}
		if !full {
			// one Replace per state keeps the value-rewriting path in the core scope
			try1(c19Op{c19Replace, s.xs[len(s.xs)/2], fresh}, true)
		}
		try1(c19Op{c19Shift, 0, 0}, false)
		try1(c19Op{c19Pop, 0, 0}, false)
		if full {
			for _, a := range refs {
				try1(c19Op{c19Find, a, 0}, false)
			}
			if kind == 1 {
				try1(c19Op{c19First, 0, 0}, false)
				try1(c19Op{c19Last, 0, 0}, false)
				try1(c19Op{c19Clear, 0, 0}, false)
			}
		}
	}
	rec(&c19Ref{xs: []int{1}, dlist: kind == 1}, 2, n)
}

func c19Count(g *Gen, kind int, ops []c19Op, nt bool, minLen, maxLen int) {
	if kind == 0 {
		g.Count("type:SList")
	} else {
		g.Count("type:DList")
	}
	g.Count(fmt.Sprintf("steps:%d", len(ops)/10*10))
	for _, o := range ops {
		g.Count("op:" + c19Names[o.code])
	}
	g.Count(fmt.Sprintf("maxlen:%d", maxLen/4*4))
	if minLen == 1 && maxLen > 1 {
		g.Count("hit:shrinks-to-one-and-or-grows")
	}
	if nt {
		g.Count("hit:head-edit-then-handle-edit")
	}
}

// c19RandomHistory: fresh distinct inserted values, handles mostly on present values, head edits forced
func c19RandomHistory(g *Gen, kind, steps int) []c19Op {
	target := 1 + g.Rng.Intn(12) // the length the history hovers around
	s := &c19Ref{xs: []int{1}, dlist: kind == 1}
	fresh := 2
	var ops []c19Op
	for i := 0; i < steps; i++ {
		ref := func() int {
			if g.Rng.Intn(10) == 0 {
				return c19Absent + g.Rng.Intn(3)*1000
			}
			return s.xs[g.Rng.Intn(len(s.xs))]
		}
		grow := len(s.xs) < target || g.Rng.Intn(4) == 0
		var o c19Op
		switch x := g.Rng.Intn(10); {
		case x < 5 && grow:
			switch g.Rng.Intn(4) {
			case 0:
				o = c19Op{c19Unshift, fresh, 0}
			case 1:
				o = c19Op{c19Append, fresh, 0}
			case 2:
				o = c19Op{c19InsertAfter, ref(), fresh}
			default:
				if kind == 1 {
					o = c19Op{c19InsertBefore, ref(), fresh}
				} else {
					o = c19Op{c19InsertAfter, ref(), fresh}
				}
			}
			fresh++
		case x < 5:
			switch g.Rng.Intn(4) {
			case 0:
				o = c19Op{c19Shift, 0, 0}
			case 1:
				o = c19Op{c19Pop, 0, 0}
			default:
				o = c19Op{c19Delete, ref(), 0}
			}
		case x < 7:
			o = c19Op{c19Replace, ref(), fresh}
			fresh++
		case x < 8:
			o = c19Op{c19Find, ref(), 0}
		default:
			// an edit at the head, whatever the target
			switch g.Rng.Intn(4) {
			case 0:
				o = c19Op{c19Unshift, fresh, 0}
				fresh++
			case 1:
				o = c19Op{c19Shift, 0, 0}
			case 2:
				o = c19Op{c19Delete, s.xs[0], 0}
			default:
				if kind == 1 {
					o = c19Op{c19InsertBefore, s.xs[0], fresh}
				} else {
					o = c19Op{c19InsertAfter, s.xs[0], fresh}
				}
				fresh++
			}
		}
		if kind == 1 && g.Rng.Intn(40) == 0 {
			o = c19Op{[]int{c19First, c19Last, c19Clear}[g.Rng.Intn(3)], 0, 0}
		}
		s.apply(o.code, o.a, o.b)
		ops = append(ops, o)
	}
	return ops
}

func genC19(g *Gen) {
	emit := func(stream string, kind int, ops []c19Op) {
		nt, mn, mx := c19Classify(kind, 1, ops)
		c19Count(g, kind, ops, nt, mn, mx)
		g.Case(stream, nt, c19Wire(kind, 1, ops))
	}
	// exhaustive: every history up to fullLen over the full alphabet, and up to
	// coreLen over the mutators with present handles
	for kind := 0; kind <= 1; kind++ {
		fullLen := g.Pick(4, 5-kind) // thorough: SList 5, DList 4 (2.7 M DList histories of 5 full-alphabet steps are left to the core scope)
		coreLen := g.Pick(5, 6)
		for n := 0; n <= fullLen; n++ {
			c19Enumerate(kind, n, true, func(ops []c19Op) { emit("exhaustive", kind, ops) })
		}
		for n := fullLen + 1; n <= coreLen; n++ {
			c19Enumerate(kind, n, false, func(ops []c19Op) { emit("exhaustive", kind, ops) })
		}
	}
	g.Exhaustive("exhaustive")

	// random: long histories, fresh values, handles mostly on present values
	nrand := g.Pick(300, 4000)
	for c := 0; c < nrand; c++ {
		kind := g.Rng.Intn(2)
		steps := 200
		if c%4 == 0 {
			steps = 20 + g.Rng.Intn(60)
		}
		emit("random", kind, c19RandomHistory(g, kind, steps))
	}

	genC19Duplicates(g)
	genC19Large(g)
	genC19Instances(g)
	genC19NaN(g)

	// malformed: outside the property's quantifier but inside the model — values
	// that repeat (Replace/insert of a value already present), absent handles
	// everywhere, methods the list type does not have
	nmal := g.Pick(300, 3000)
	for c := 0; c < nmal; c++ {
		kind := g.Rng.Intn(2)
		steps := 1 + g.Rng.Intn(12)
		var ops []c19Op
		for i := 0; i < steps; i++ {
			v := func() int { return 1 + g.Rng.Intn(4) }
			code := 1 + g.Rng.Intn(12)
			ops = append(ops, c19Op{code, v(), v()})
		}
		init := 1 + g.Rng.Intn(4)
		nt, mn, mx := c19Classify(kind, init, ops)
		c19Count(g, kind, ops, nt, mn, mx)
		g.Count("malformed:repeating-values")
		g.Case("malformed", nt, c19Wire(kind, init, ops))
	}
}

// ---------- values that repeat ----------

// genC19Duplicates: the property's quantifier asks for distinct inserted values; what the lists do
// when values repeat (a Find handle is the FIRST node carrying the value) is proved all the same
// (C19_Props: no theorem assumes distinctness) and exercised here, in streams of its own:
// every history up to the bound over the values {1, 2} from the list [1], then random ones.
func genC19Duplicates(g *Gen) {
	emit := func(stream string, kind int, ops []c19Op) {
		nt, mn, mx := c19Classify(kind, 1, ops)
		c19Count(g, kind, ops, nt, mn, mx)
		g.Count("duplicates:histories")
		g.Case(stream, nt, c19Wire(kind, 1, ops))
	}
	bound := g.Pick(3, 4)
	for kind := 0; kind <= 1; kind++ {
		for n := 1; n <= bound; n++ {
			c19EnumerateDup(kind, n, func(ops []c19Op) { emit("duplicates-exhaustive", kind, ops) })
		}
	}
	g.Exhaustive("duplicates-exhaustive")

	nrand := g.Pick(200, 3000)
	for c := 0; c < nrand; c++ {
		kind := g.Rng.Intn(2)
		emit("duplicates-random", kind, c19RandomDupHistory(g, kind, 30+g.Rng.Intn(50)))
	}
}

// c19EnumerateDup calls emit for every history of exactly n steps over the values {1, 2}
func c19EnumerateDup(kind, n int, emit func(ops []c19Op)) {
	var alpha []c19Op
	for v := 1; v <= 2; v++ {
		alpha = append(alpha, c19Op{c19Unshift, v, 0}, c19Op{c19Append, v, 0}, c19Op{c19Delete, v, 0})
		for a := 1; a <= 2; a++ {
			alpha = append(alpha, c19Op{c19InsertAfter, a, v}, c19Op{c19Replace, a, v})
			if kind == 1 {
				alpha = append(alpha, c19Op{c19InsertBefore, a, v})
			}
		}
	}
	alpha = append(alpha, c19Op{c19Shift, 0, 0}, c19Op{c19Pop, 0, 0})
	var ops []c19Op
	var rec func(left int)
	rec = func(left int) {
		if left == 0 {
			emit(ops)
			return
		}
		for _, o := range alpha {
			ops = append(ops, o)
			rec(left - 1)
			ops = ops[:len(ops)-1]
		}
	}
	rec(n)
}

// c19RandomDupHistory: values from a small pool, so that they repeat all the time
func c19RandomDupHistory(g *Gen, kind, steps int) []c19Op {
	pool := 2 + g.Rng.Intn(4) // values 1..pool
	s := &c19Ref{xs: []int{1}, dlist: kind == 1}
	var ops []c19Op
	for i := 0; i < steps; i++ {
		v := func() int { return 1 + g.Rng.Intn(pool) }
		ref := func() int {
			if g.Rng.Intn(8) == 0 {
				return v()
			}
			return s.xs[g.Rng.Intn(len(s.xs))]
		}
		var o c19Op
		switch x := g.Rng.Intn(12); {
		case x < 1:
			o = c19Op{c19Unshift, v(), 0}
		case x < 2:
			o = c19Op{c19Append, v(), 0}
		case x < 4:
			o = c19Op{c19InsertAfter, ref(), v()}
		case x < 6:
			if kind == 1 {
				o = c19Op{c19InsertBefore, ref(), v()}
			} else {
				o = c19Op{c19InsertAfter, ref(), v()}
			}
		case x < 8:
			o = c19Op{c19Replace, ref(), v()}
		case x < 10:
			o = c19Op{c19Delete, ref(), 0}
		case x < 11:
			o = c19Op{c19Shift, 0, 0}
		default:
			o = c19Op{c19Pop, 0, 0}
		}
		if len(s.xs) > 9 && g.Rng.Intn(2) == 0 {
			o = c19Op{c19Delete, ref(), 0}
		}
		s.apply(o.code, o.a, o.b)
		ops = append(ops, o)
	}
	return ops
}

// ---------- other element types ----------

// genC19Instances: the lists are generic; Find / Replace / Delete compare values with ==.  The same
// wire histories are run on SList[string] / DList[string] and on a comparable struct with a string
// field (wire kind + 4 / + 8), through the codecs above: every value is built anew for every use, so
// equal values never share storage.  The model and the wire are those of the int instance (the model
// ignores the instance): the observation, decoded back to ints, must not depend on the element type.
func genC19Instances(g *Gen) {
	fullLen := g.Pick(3, 4)
	dupLen := g.Pick(3, 4)
	for inst := 1; inst <= 2; inst++ {
		emit := func(stream string, kind int, quiet bool, ops []c19Op) {
			nt, _, _ := c19Classify(kind, 1, ops)
			g.Count("instances:" + c19InstNames[inst])
			for _, o := range ops {
				g.Count("instances:op:" + c19Names[o.code])
			}
			wk := kind + 4*inst
			if quiet {
				wk += 2
			}
			g.Case(stream, nt, c19Wire(wk, 1, ops))
		}
		for kind := 0; kind <= 1; kind++ {
			// every history over the full alphabet (observers, absent values, Clear) up to fullLen
			// steps, one more step over the mutators with present handles; distinct values
			for n := 0; n <= fullLen; n++ {
				c19Enumerate(kind, n, true, func(ops []c19Op) { emit("instances-exhaustive", kind, false, ops) })
			}
			c19Enumerate(kind, fullLen+1, false, func(ops []c19Op) { emit("instances-exhaustive", kind, false, ops) })
			// every history over the values {1, 2}: equal values meet all the time
			for n := 1; n <= dupLen; n++ {
				c19EnumerateDup(kind, n, func(ops []c19Op) { emit("instances-exhaustive", kind, false, ops) })
			}
		}
		nrand := g.Pick(60, 1000)
		for c := 0; c < nrand; c++ {
			kind := g.Rng.Intn(2)
			if c%2 == 0 {
				emit("instances-random", kind, false, c19RandomHistory(g, kind, 40+g.Rng.Intn(160)))
			} else {
				emit("instances-random", kind, false, c19RandomDupHistory(g, kind, 30+g.Rng.Intn(50)))
			}
		}
		// a few long lists (checkpointed records)
		for kind := 0; kind <= 1; kind++ {
			for _, n := range []int{33, 65, g.Pick(129, 513)} {
				emit("instances-random", kind, true, c19LargeCase(g, kind, n, 4, 5, 3, true))
				emit("instances-random", kind, true, c19LargeCase(g, kind, n, g.Rng.Intn(4), g.Rng.Intn(5), 3, true))
			}
		}
	}
	g.Exhaustive("instances-exhaustive")
}

// ---------- long lists ----------

// c19Big builds one checkpointed history: the list is looked at (Each, First/Last) only when its
// length is one of the marked lengths, so a history over a list of n elements produces an
// observation that is linear in n per checkpoint, not quadratic overall.
type c19Big struct {
	g     *Gen
	kind  int
	s     *c19Ref
	fresh int
	ops   []c19Op
	marks map[int]bool
	all   int  // every length up to this one is a checkpoint
	far   bool // false: only a few checkpoints and full walks (lists of ~10^4 elements)
}

// mark: a checkpoint that is always taken
func (b *c19Big) mark() {
	if n := len(b.ops); n > 0 && b.ops[n-1].code == c19Look {
		return
	}
	b.ops = append(b.ops, c19Op{c19Look, 0, 0})
}

// look: a checkpoint between the edits; left out on the very long lists
func (b *c19Big) look() {
	if b.far {
		b.mark()
	}
}

func (b *c19Big) do(code, a, v int) {
	before := len(b.s.xs)
	b.s.apply(code, a, v)
	b.ops = append(b.ops, c19Op{code, a, v})
	if n := len(b.s.xs); n != before && (n <= b.all || b.marks[n]) {
		b.mark()
	}
}

func (b *c19Big) next() int  { b.fresh++; return b.fresh - 1 }
func (b *c19Big) first() int { return b.s.xs[0] }
func (b *c19Big) last() int  { return b.s.xs[len(b.s.xs)-1] }
func (b *c19Big) mid() int   { return b.s.xs[len(b.s.xs)/2] }
func (b *c19Big) any() int   { return b.s.xs[b.g.Rng.Intn(len(b.s.xs))] }

// near: an element at most d places from the front (keeps the Find walk short on very long lists)
func (b *c19Big) near(d int) int {
	n := len(b.s.xs)
	if n > d {
		n = d
	}
	return b.s.xs[b.g.Rng.Intn(n)]
}

var c19GrowNames = []string{"Append", "Unshift", "InsertAfter", "InsertBefore", "mixed", "front-only"}
var c19ShrinkNames = []string{"Shift", "Pop", "Delete-first", "Delete-last", "Delete-any", "mixed", "front-only"}

// grow1 adds one element by the given method; pick says which node the handle methods aim at
// (0 first, 1 last, 2 any).  SList has no InsertBefore: InsertAfter takes its place.
func (b *c19Big) grow1(method, pick int) {
	at := func() int {
		switch pick {
		case 0:
			return b.first()
		case 1:
			return b.last()
		}
		return b.any()
	}
	switch method {
	case 0:
		b.do(c19Append, b.next(), 0)
	case 1:
		b.do(c19Unshift, b.next(), 0)
	case 2:
		b.do(c19InsertAfter, at(), b.next())
	case 3:
		if b.kind == 1 {
			b.do(c19InsertBefore, at(), b.next())
		} else {
			b.do(c19InsertAfter, at(), b.next())
		}
	case 4:
		b.grow1(b.g.Rng.Intn(4), b.g.Rng.Intn(3))
	default: // front-only: every method, but always within a few places of the front
		switch b.g.Rng.Intn(3) {
		case 0:
			b.do(c19Unshift, b.next(), 0)
		case 1:
			b.do(c19InsertAfter, b.near(4), b.next())
		default:
			if b.kind == 1 {
				b.do(c19InsertBefore, b.near(4), b.next())
			} else {
				b.do(c19InsertAfter, b.first(), b.next())
			}
		}
	}
}

func (b *c19Big) shrink1(method int) {
	switch method {
	case 0:
		b.do(c19Shift, 0, 0)
	case 1:
		b.do(c19Pop, 0, 0)
	case 2:
		b.do(c19Delete, b.first(), 0)
	case 3:
		b.do(c19Delete, b.last(), 0)
	case 4:
		b.do(c19Delete, b.any(), 0)
	case 5:
		b.shrink1(b.g.Rng.Intn(5))
	default: // front-only
		switch b.g.Rng.Intn(3) {
		case 0:
			b.do(c19Shift, 0, 0)
		case 1:
			b.do(c19Delete, b.first(), 0)
		default:
			b.do(c19Delete, b.near(4), 0)
		}
	}
}

// c19LargeCase: grow the one-element list to n elements, look at it with every observer, edit it in
// the middle and at both ends, shrink it back to one element, try to go below one, use it again.
// farOK=false keeps every walk near the front (lists of ~10^4 elements: the node-heap model pays
// for a walk with the address of every node it passes).
func c19LargeCase(g *Gen, kind, n, grow, shrink, all int, farOK bool) []c19Op {
	b := &c19Big{g: g, kind: kind, s: &c19Ref{xs: []int{1}, dlist: kind == 1}, fresh: 2, marks: map[int]bool{}, all: all, far: farOK}
	for k := 32; k <= n+1; k *= 2 {
		if !farOK && k < n/4 {
			continue
		}
		b.marks[k] = true
		b.marks[k+1] = true
		if farOK {
			b.marks[k-1] = true
			b.marks[k+2] = true
			b.marks[k+k/2] = true
			b.marks[k+k/2+1] = true
		}
	}
	if farOK {
		b.marks[n-1] = true
		b.marks[n+1] = true
		for i := 0; i < 4; i++ {
			b.marks[2+g.Rng.Intn(n)] = true
		}
	}
	pick := g.Rng.Intn(3)
	if grow == 3 && !farOK {
		pick = 0
	}
	b.mark()
	for len(b.s.xs) < n {
		b.grow1(grow, pick)
	}
	// every observer on the grown list
	b.mark()
	b.do(c19Find, b.first(), 0)
	b.do(c19Find, b.near(40), 0)
	if farOK {
		b.do(c19Find, b.mid(), 0)
		b.do(c19Find, b.last(), 0)
		b.do(c19Find, -7, 0) // never inserted
	}
	if kind == 1 {
		b.do(c19First, 0, 0)
		b.do(c19Last, 0, 0)
	}
	// edits in the middle ...
	inner := b.mid
	if !farOK {
		inner = func() int { return b.near(40) }
	}
	b.do(c19Replace, inner(), b.next())
	b.do(c19InsertAfter, inner(), b.next())
	if kind == 1 {
		b.do(c19InsertBefore, inner(), b.next())
	}
	b.look()
	b.do(c19Delete, inner(), 0)
	b.do(c19Delete, inner(), 0)
	b.look()
	// ... at the front ...
	b.do(c19Unshift, b.next(), 0)
	b.do(c19Replace, b.first(), b.next())
	b.do(c19InsertAfter, b.first(), b.next())
	if kind == 1 {
		b.do(c19InsertBefore, b.first(), b.next())
	}
	b.look()
	b.do(c19Delete, b.first(), 0)
	b.do(c19Shift, 0, 0)
	b.look()
	// ... and at the back (one full walk each)
	b.do(c19Append, b.next(), 0)
	b.do(c19Replace, b.last(), b.next())
	b.do(c19InsertAfter, b.last(), b.next())
	if kind == 1 {
		b.do(c19InsertBefore, b.last(), b.next())
	}
	b.look()
	b.do(c19Delete, b.last(), 0)
	b.do(c19Pop, 0, 0)
	b.mark()
	if kind == 1 && grow == 4 && shrink == 5 {
		// Clear on a long list, then grow again a little
		b.do(c19Clear, 0, 0)
		b.mark()
		for len(b.s.xs) < 34 {
			b.grow1(4, 2)
		}
	}
	for len(b.s.xs) > 1 {
		b.shrink1(shrink)
	}
	// the single element stays; the list is usable afterwards
	b.do(c19Shift, 0, 0)
	b.mark()
	b.do(c19Pop, 0, 0)
	b.do(c19Delete, b.first(), 0)
	b.mark()
	b.do(c19Append, b.next(), 0)
	b.do(c19Unshift, b.next(), 0)
	b.do(c19InsertAfter, b.mid(), b.next())
	b.mark()
	return b.ops
}

func genC19Large(g *Gen) {
	emit := func(kind, n, grow, shrink int, ops []c19Op) {
		nt, _, _ := c19Classify(kind, 1, ops)
		if kind == 0 {
			g.Count("type:SList")
		} else {
			g.Count("type:DList")
		}
		g.Count(fmt.Sprintf("large:size:%d", n))
		g.Count("large:grow:" + c19GrowNames[grow])
		g.Count("large:shrink:" + c19ShrinkNames[shrink])
		for _, o := range ops {
			if o.code == c19Look {
				g.Count("large:checkpoints")
			}
		}
		g.Case("large", nt, c19Wire(kind+2, 1, ops))
	}
	for kind := 0; kind <= 1; kind++ {
		// every way of growing with every way of shrinking
		for _, n := range []int{33, 64, 65, 129} {
			for grow := 0; grow <= 4; grow++ {
				for shrink := 0; shrink <= 5; shrink++ {
					emit(kind, n, grow, shrink, c19LargeCase(g, kind, n, grow, shrink, 3, true))
				}
			}
		}
		// every length up to 130 is a checkpoint, on the way up and on the way down
		emit(kind, 130, 0, 1, c19LargeCase(g, kind, 130, 0, 1, 130, true))
		emit(kind, 130, 1, 0, c19LargeCase(g, kind, 130, 1, 0, 130, true))
		emit(kind, 130, 4, 5, c19LargeCase(g, kind, 130, 4, 5, 130, true))
		for grow := 0; grow <= 4; grow++ {
			for _, shrink := range []int{grow % 6, (grow + 3) % 6} {
				emit(kind, 257, grow, shrink, c19LargeCase(g, kind, 257, grow, shrink, 3, true))
			}
		}
		// longer lists: one pairing per way of growing (the node-heap model pays for every walk with
		// the addresses it passes: a 1025-element history costs it seconds); the quick tier takes
		// three of the five pairings per list type, different ones for the two types
		pairs := [][2]int{{0, 1}, {1, 0}, {2, 4}, {3, 3}, {4, 5}}
		if g.Quick() {
			if kind == 0 {
				pairs = [][2]int{{0, 1}, {1, 2}, {4, 5}}
			} else {
				pairs = [][2]int{{1, 0}, {3, 4}, {4, 5}}
			}
			for _, p := range pairs {
				emit(kind, 1025, p[0], p[1], c19LargeCase(g, kind, 1025, p[0], p[1], 3, true))
			}
		} else {
			for _, n := range []int{513, 1025} {
				for _, p := range pairs {
					emit(kind, n, p[0], p[1], c19LargeCase(g, kind, n, p[0], p[1], 3, true))
				}
			}
			for _, p := range pairs[kind : kind+3] {
				emit(kind, 2049, p[0], p[1], c19LargeCase(g, kind, 2049, p[0], p[1], 3, true))
			}
		}
		if !g.Quick() {
			// ~10^4 elements: grown and shrunk within a few places of the front (every method), a
			// handful of full walks and checkpoints
			emit(kind, 4097, 1, 0, c19LargeCase(g, kind, 4097, 1, 0, 3, false))
			emit(kind, 4097, 5, 6, c19LargeCase(g, kind, 4097, 5, 6, 3, false))
			emit(kind, 10001, 5, 6, c19LargeCase(g, kind, 10001, 5, 6, 3, false))
		}
	}
}

func describeC19(in []int64) string {
	if len(in) < 2 {
		return "malformed"
	}
	var sb strings.Builder
	inst := ""
	if k := in[0] / 4; in[0] >= 4 && in[0] <= 23 {
		inst = "[" + c19InstNames[k] + "]"
	}
	nan := in[0] >= 12 && in[0] <= 23
	d := func(v int64) string {
		if nan {
			return c19CodeName(v)
		}
		return fmt.Sprint(v)
	}
	if in[0]%2 == 0 {
		fmt.Fprintf(&sb, "l := list.Init%s(%s)", inst, d(in[1]))
	} else {
		fmt.Fprintf(&sb, "l := list.InitDList%s(%s)", inst, d(in[1]))
	}
	rest := in[2:]
	one := func(i int) string {
		code, a, b := int(rest[i]), rest[i+1], rest[i+2]
		switch code {
		case c19Unshift, c19Append:
			return fmt.Sprintf("l.%s(%s)", c19Names[code], d(a))
		case c19InsertAfter, c19InsertBefore:
			return fmt.Sprintf("l.%s(Find(%s), %s)", c19Names[code], d(a), d(b))
		case c19Replace:
			return fmt.Sprintf("l.Replace(%s, %s)", d(a), d(b))
		case c19Delete:
			return fmt.Sprintf("l.Delete(Find(%s))", d(a))
		case c19Find:
			return fmt.Sprintf("l.Find(%s)", d(a))
		case c19Look:
			return "LOOK"
		}
		if code >= 1 && code <= 12 {
			return fmt.Sprintf("l.%s()", c19Names[code])
		}
		return fmt.Sprintf("?%d", code)
	}
	// runs of the same method are folded, LOOKs inside a run counted: "32x l.Append(2) .. l.Append(33) (3 LOOKs)"
	for i := 0; i+3 <= len(rest); {
		j, n, looks, lastOp := i, 0, 0, i
		for j+3 <= len(rest) && (rest[j] == rest[i] || (rest[j] == c19Look && n > 0)) {
			if rest[j] == c19Look {
				looks++
			} else {
				n++
				lastOp = j
			}
			j += 3
		}
		sb.WriteString("; ")
		if n > 4 && rest[i] != c19Look {
			fmt.Fprintf(&sb, "%dx %s .. %s", n, one(i), one(lastOp))
			if looks > 0 {
				fmt.Fprintf(&sb, " (%d LOOK(s) in between, the last %s)", looks, map[bool]string{true: "at the end", false: "before the end"}[rest[j-3] == c19Look])
			}
		} else {
			for k := i; k < j; k += 3 {
				if k > i {
					sb.WriteString("; ")
				}
				sb.WriteString(one(k))
			}
		}
		i = j
	}
	if nan {
		sb.WriteString("   [0 is the zero value of the element type; every NaN is built with a new payload; struct values are {float64(v/2), v%2}, any values int(v)]")
	} else if inst != "" {
		sb.WriteString("   [every value v is built anew for each use: " + map[bool]string{true: `"" for 0, "#v" otherwise`, false: `{} for 0, {"#v/2", v%2} otherwise`}[in[0]/4 == 1] + "]")
	}
	if in[0]%4 >= 2 {
		sb.WriteString("   [call results recorded; Each, First/Last observed at every LOOK]")
	} else {
		sb.WriteString("   [Each, First/Last observed after every step]")
	}
	return sb.String()
}

func init() {
	register(&Prop{
		ID: "C19",
		Rule: "histories on list.SList and list.DList from a one-element list: exhaustive up to the tier's bound " +
			"(full alphabet incl. observers, absent values and Clear up to 4 steps, thorough 5 for SList; mutators with present Find handles up to 5 steps, thorough 6), " +
			"fresh distinct inserted values, handles from Find immediately before use; then seeded random histories of 200 steps. " +
			"After every step the Each sequence and (DList) First/Last are recorded. " +
			"Streams of their own: values that repeat (every history up to 3 steps, thorough 4, over the values {1,2}, and random ones); " +
			"long lists (grown to 33, 64, 65, 129, 130, 257, 1025 elements — thorough also 513, 2049, 4097, 10001 — by Append / Unshift / InsertAfter / InsertBefore, " +
			"observed with every observer, edited in the middle and at both ends, shrunk back to one element by Shift / Pop / Delete; " +
			"call results recorded at every step, Each and First/Last at checkpoint lengths 32k-1..32k+2 and others); " +
			"other element types (SList/DList[string] and a comparable struct with a string field, every value built anew for each use so that equal values never share storage; " +
			"the same wire, decoded back to ints: every full-alphabet history up to 3 steps (thorough 4), mutators one step further, every history over the values {1,2} up to 3 (4) steps, random ones and a few long lists); " +
			"element types whose == is not the identity of values (nan-exhaustive, nan-random: SList/DList[float64], [struct{X float64; N int}] and [any]; element codes for NaN — a new payload at every use —, -0.0 next to +0.0, " +
			"and in the any instance two slices (comparing them panics) and a map: every history up to 2 steps (thorough: 3 at float64) over the whole alphabet {NaN, -0.0 / []int{1}, []int{2}, zero value, 1} as first element, inserted value and look-up argument, observers and Clear included, " +
			"every history of 3 steps over the mutators from a special first element; seeded random histories of 20..80 steps, a third of them with checkpointed records; a look-up that panics ends the history); " +
			"a malformed stream (repeating values, absent handles, methods the list type lacks). " +
			"non-trivial = an operation that replaces the embedded head node (Unshift, Shift, Delete or InsertBefore at the head) " +
			"is followed later by InsertAfter/InsertBefore/Delete through a Find handle on a present node; in the nan streams: a mutator runs while the list holds a NaN, a -0.0 or a non-comparable value",
		Exec:     execC19,
		Gen:      genC19,
		Describe: describeC19,
	})
}
