package main

import (
	"fmt"
	"math"
)

// C19, streams `nan-*`: the linked lists at element types whose == is NOT the identity of values
// (mirror of C19_ModelNaN.c19eq and of the kinds 12..23 of coq/theories/C19_Wire.v).
//
//	wire kind = base (0 SList, 1 DList, 2/3 the same with checkpointed records) + 4*instance
//	instance 3: T = float64                       kinds 12..15
//	instance 4: T = c19FRec{X float64; N int}     kinds 16..19
//	instance 5: T = any                           kinds 20..23
//
// Every value on the wire is the CODE of an element:
//
//	c19NaNc   a NaN: math.NaN() with a payload that changes from use to use / c19FRec{NaN, 0} / any(NaN)
//	c19NegZ   -0.0 / c19FRec{-0.0, 0}: == to code 0 (+0.0, the zero value) although a different value
//	c19U1, c19U2   any([]int{1}), any([]int{2}): one non-comparable dynamic type; comparing two of them PANICS
//	c19U3     any(map[int]int{}): another non-comparable dynamic type
//	0         the zero value of T (+0.0, c19FRec{}, nil)
//	n         otherwise: float64(n) / c19FRec{float64(n/2), n%2} / any(int(n))
//
// What comes back (Each, First/Last) is decoded to codes again: every NaN whatever its payload is
// c19NaNc, the sign of a zero is KEPT (an edit must not swap +0 for -0), a value that decodes to nothing
// is c19Garbage.  c19NegZ is not in the alphabet of the any instance (nil is not == any(-0.0)), the
// slices and the map only in that of the any instance.
const (
	c19NaNc = -1000001
	c19NegZ = -1000002
	c19U1   = -1000011
	c19U2   = -1000012
	c19U3   = -1000013
)

// c19CodeEq mirrors C19_ModelNaN.c19eq: ok=false when the comparison panics.
func c19CodeEq(a, b int) (eq, ok bool) {
	sl := func(x int) bool { return x == c19U1 || x == c19U2 }
	if (sl(a) && sl(b)) || (a == c19U3 && b == c19U3) {
		return false, false
	}
	if a == c19NaNc || b == c19NaNc {
		return false, true
	}
	if a == c19NegZ {
		a = 0
	}
	if b == c19NegZ {
		b = 0
	}
	return a == b, true
}

func c19Special(a int) bool {
	return a == c19NaNc || a == c19NegZ || a == c19U1 || a == c19U2 || a == c19U3
}

var c19NaNPayload uint64

// a new NaN bit pattern at every use (quiet NaNs with different payloads, now and then negative)
func c19FreshNaN() float64 {
	c19NaNPayload++
	bits := uint64(0x7ff8000000000000) | (c19NaNPayload & 0xffff)
	if c19NaNPayload%3 == 0 {
		bits |= 1 << 63
	}
	return math.Float64frombits(bits)
}

func c19EncFloat(v int) float64 {
	switch v {
	case c19NaNc:
		return c19FreshNaN()
	case c19NegZ:
		return math.Copysign(0, -1)
	}
	return float64(v)
}

func c19DecFloat(f float64) int {
	switch {
	case f != f:
		return c19NaNc
	case f == 0 && math.Signbit(f):
		return c19NegZ
	case math.IsInf(f, 0) || f != math.Trunc(f) || math.Abs(f) > 1e15:
		return c19Garbage
	}
	return int(f)
}

type c19FRec struct {
	X float64
	N int
}

func c19EncFRec(v int) c19FRec {
	switch v {
	case c19NaNc:
		return c19FRec{X: c19FreshNaN()}
	case c19NegZ:
		return c19FRec{X: math.Copysign(0, -1)}
	}
	return c19FRec{X: float64(v / 2), N: v % 2}
}

func c19DecFRec(r c19FRec) int {
	switch {
	case r.X != r.X:
		if r.N == 0 {
			return c19NaNc
		}
		return c19Garbage
	case r.X == 0 && math.Signbit(r.X):
		if r.N == 0 {
			return c19NegZ
		}
		return c19Garbage
	case math.IsInf(r.X, 0) || r.X != math.Trunc(r.X) || math.Abs(r.X) > 1e15 || r.N < -1 || r.N > 1:
		return c19Garbage
	}
	q := int(r.X)
	v := 2*q + r.N
	if v/2 != q || v%2 != r.N {
		return c19Garbage
	}
	return v
}

func c19EncAny(v int) any {
	switch v {
	case 0:
		return nil
	case c19NaNc:
		return c19FreshNaN()
	case c19NegZ:
		return math.Copysign(0, -1) // not in the alphabet of this instance
	case c19U1:
		return []int{1}
	case c19U2:
		return []int{2}
	case c19U3:
		return map[int]int{}
	}
	return v
}

func c19DecAny(x any) int {
	switch t := x.(type) {
	case nil:
		return 0
	case int:
		if t == 0 || c19Special(t) {
			return c19Garbage
		}
		return t
	case float64:
		if t != t {
			return c19NaNc
		}
		if t == 0 && math.Signbit(t) {
			return c19NegZ
		}
	case []int:
		if len(t) == 1 && t[0] == 1 {
			return c19U1
		}
		if len(t) == 1 && t[0] == 2 {
			return c19U2
		}
	case map[int]int:
		if len(t) == 0 {
			return c19U3
		}
	}
	return c19Garbage
}

// the node Find returned must carry a value that is == to the one asked for
func c19SameCode(found, asked int) bool {
	eq, ok := c19CodeEq(found, asked)
	return ok && eq
}

func c19NewNaN(kind, v int) *c19List {
	dl := kind%2 == 1
	switch kind / 4 {
	case 3:
		if dl {
			return c19NewDGEq(v, c19EncFloat, c19DecFloat, c19SameCode)
		}
		return c19NewSGEq(v, c19EncFloat, c19DecFloat, c19SameCode)
	case 4:
		if dl {
			return c19NewDGEq(v, c19EncFRec, c19DecFRec, c19SameCode)
		}
		return c19NewSGEq(v, c19EncFRec, c19DecFRec, c19SameCode)
	case 5:
		if dl {
			return c19NewDGEq(v, c19EncAny, c19DecAny, c19SameCode)
		}
		return c19NewSGEq(v, c19EncAny, c19DecAny, c19SameCode)
	}
	return nil
}

func c19CodeName(v int64) string {
	switch v {
	case c19NaNc:
		return "NaN"
	case c19NegZ:
		return "-0.0"
	case c19U1:
		return "[]int{1}"
	case c19U2:
		return "[]int{2}"
	case c19U3:
		return "map[int]int{}"
	}
	return fmt.Sprint(v)
}

// ---------- generator ----------

// c19NRef is the reference sequence of codes under c19CodeEq, used ONLY to steer generation and to
// classify cases (mirror of C19_ModelNaN.gspec_step); dead = a look-up panicked, the case has ended.
type c19NRef struct {
	xs    []int
	dlist bool
	dead  bool
}

func (s *c19NRef) idx(a int) int {
	for i, x := range s.xs {
		eq, ok := c19CodeEq(x, a)
		if !ok {
			s.dead = true
			return -1
		}
		if eq {
			return i
		}
	}
	return -1
}

func (s *c19NRef) hasSpecial() bool {
	for _, x := range s.xs {
		if c19Special(x) {
			return true
		}
	}
	return false
}

func (s *c19NRef) apply(code, a, b int) {
	if s.dead {
		return
	}
	i := -1
	switch code {
	case c19InsertAfter, c19Replace, c19Delete, c19Find:
		i = s.idx(a)
	case c19InsertBefore:
		if s.dlist {
			i = s.idx(a)
		}
	}
	if s.dead {
		return
	}
	switch code {
	case c19Unshift:
		s.xs = append([]int{a}, s.xs...)
	case c19Append:
		s.xs = append(s.xs, a)
	case c19InsertAfter:
		if i >= 0 {
			s.xs = append(s.xs[:i+1:i+1], append([]int{b}, s.xs[i+1:]...)...)
		}
	case c19InsertBefore:
		if i >= 0 {
			s.xs = append(s.xs[:i:i], append([]int{b}, s.xs[i:]...)...)
		}
	case c19Replace:
		if i >= 0 {
			s.xs[i] = b
		}
	case c19Delete:
		if i >= 0 && len(s.xs) > 1 {
			s.xs = append(s.xs[:i:i], s.xs[i+1:]...)
		}
	case c19Shift:
		if len(s.xs) > 1 {
			s.xs = s.xs[1:]
		} else if s.dlist {
			s.xs = []int{0}
		}
	case c19Pop:
		if len(s.xs) > 1 {
			s.xs = s.xs[:len(s.xs)-1]
		}
	case c19Clear:
		if s.dlist {
			s.xs = s.xs[:1]
		}
	}
}

// non-trivial = a mutator runs while the list holds an element that is not == to itself, is == to a
// different value, or cannot be compared with its like
func c19NClassify(kind, init int, ops []c19Op) bool {
	s := &c19NRef{xs: []int{init}, dlist: kind == 1}
	for _, o := range ops {
		if s.dead {
			break
		}
		if s.hasSpecial() && o.code <= c19Pop {
			return true
		}
		s.apply(o.code, o.a, o.b)
	}
	return false
}

// the values of an instance: the special ones first
func c19NAlphabet(inst int) []int {
	if inst == 5 {
		return []int{c19NaNc, c19U1, c19U2, 0, 1}
	}
	return []int{c19NaNc, c19NegZ, 0, 1}
}

// c19NEnumerate: every history of exactly n steps over alpha from the list [init]; a history is not
// extended beyond a panicking look-up (the case ends there).
func c19NEnumerate(kind, init, n int, alpha []c19Op, emit func(ops []c19Op)) {
	var ops []c19Op
	var rec func(s *c19NRef, left int)
	rec = func(s *c19NRef, left int) {
		if left == 0 {
			emit(ops)
			return
		}
		for _, o := range alpha {
			t := &c19NRef{xs: cloneInts(s.xs), dlist: s.dlist}
			t.apply(o.code, o.a, o.b)
			ops = append(ops, o)
			if t.dead {
				emit(ops) // the panicking look-up is the last step
			} else {
				rec(t, left-1)
			}
			ops = ops[:len(ops)-1]
		}
	}
	rec(&c19NRef{xs: []int{init}, dlist: kind == 1}, n)
}

func c19NOps(kind int, vals, ins []int, observers bool) []c19Op {
	var alpha []c19Op
	for _, v := range vals {
		alpha = append(alpha, c19Op{c19Unshift, v, 0}, c19Op{c19Append, v, 0}, c19Op{c19Delete, v, 0})
		if observers {
			alpha = append(alpha, c19Op{c19Find, v, 0})
		}
		for _, b := range ins {
			alpha = append(alpha, c19Op{c19InsertAfter, v, b}, c19Op{c19Replace, v, b})
			if kind == 1 {
				alpha = append(alpha, c19Op{c19InsertBefore, v, b})
			}
		}
	}
	alpha = append(alpha, c19Op{c19Shift, 0, 0}, c19Op{c19Pop, 0, 0})
	if observers && kind == 1 {
		alpha = append(alpha, c19Op{c19First, 0, 0}, c19Op{c19Last, 0, 0}, c19Op{c19Clear, 0, 0})
	}
	return alpha
}

// c19NRandom: values from the instance's alphabet and a few ordinary ones; the head is special most of
// the time; look-ups by a non-comparable value are rare (they end the case when they meet their like)
func c19NRandom(g *Gen, kind, inst, steps int, looks bool) (int, []c19Op) {
	special := c19NAlphabet(inst)
	special = special[:len(special)-2]
	if inst == 5 {
		special = append(special, c19U3)
	}
	val := func() int {
		switch x := g.Rng.Intn(10); {
		case x < 4:
			return special[g.Rng.Intn(len(special))]
		case x < 5:
			return 0
		}
		return 1 + g.Rng.Intn(5)
	}
	init := val()
	s := &c19NRef{xs: []int{init}, dlist: kind == 1}
	var ops []c19Op
	for i := 0; i < steps && !s.dead; i++ {
		ref := func() int {
			if g.Rng.Intn(6) == 0 {
				return val()
			}
			for try := 0; try < 4; try++ {
				x := s.xs[g.Rng.Intn(len(s.xs))]
				if x != c19U1 && x != c19U2 && x != c19U3 {
					return x
				}
			}
			if g.Rng.Intn(30) == 0 {
				return s.xs[g.Rng.Intn(len(s.xs))]
			}
			return 1 + g.Rng.Intn(5)
		}
		var o c19Op
		switch x := g.Rng.Intn(14); {
		case x < 2:
			o = c19Op{c19Unshift, val(), 0}
		case x < 3:
			o = c19Op{c19Append, val(), 0}
		case x < 5:
			o = c19Op{c19InsertAfter, ref(), val()}
		case x < 7:
			if kind == 1 {
				o = c19Op{c19InsertBefore, ref(), val()}
			} else {
				o = c19Op{c19InsertAfter, ref(), val()}
			}
		case x < 9:
			o = c19Op{c19Replace, ref(), val()}
		case x < 11:
			o = c19Op{c19Delete, ref(), 0}
		case x < 12:
			o = c19Op{c19Shift, 0, 0}
		case x < 13:
			o = c19Op{c19Pop, 0, 0}
		default:
			if kind == 1 {
				o = c19Op{[]int{c19First, c19Last, c19Find, c19Clear}[g.Rng.Intn(4)], ref(), 0}
			} else {
				o = c19Op{c19Find, ref(), 0}
			}
		}
		if len(s.xs) > 9 && g.Rng.Intn(2) == 0 {
			o = c19Op{[]int{c19Delete, c19Shift, c19Pop}[g.Rng.Intn(3)], ref(), 0}
		}
		s.apply(o.code, o.a, o.b)
		ops = append(ops, o)
		if looks && g.Rng.Intn(3) == 0 {
			ops = append(ops, c19Op{c19Look, 0, 0})
		}
	}
	if looks {
		ops = append(ops, c19Op{c19Look, 0, 0})
	}
	return init, ops
}

func genC19NaN(g *Gen) {
	for inst := 3; inst <= 5; inst++ {
		emit := func(stream string, kind, init int, quiet bool, ops []c19Op) {
			nt := c19NClassify(kind, init, ops)
			g.Count("nan:" + c19InstNames[inst])
			if c19Special(init) {
				g.Count("nan:special-first-element")
			}
			for _, o := range ops {
				g.Count("nan:op:" + c19Names[o.code])
			}
			wk := kind + 4*inst
			if quiet {
				wk += 2
			}
			g.Case(stream, nt, c19Wire(wk, init, ops))
		}
		vals := c19NAlphabet(inst)
		for kind := 0; kind <= 1; kind++ {
			// every history up to fullLen steps over the whole alphabet (every value as the first
			// element, as the value inserted and as the value looked up; observers; Clear)
			fullLen := 2
			if !g.Quick() && inst == 3 {
				fullLen = 3 // thorough: one step more at float64 (at every instance it would be 10 M histories)
			}
			full := c19NOps(kind, vals, []int{c19NaNc, vals[1], 7}, true)
			for _, init := range vals {
				for n := 0; n <= fullLen; n++ {
					c19NEnumerate(kind, init, n, full, func(ops []c19Op) { emit("nan-exhaustive", kind, init, false, ops) })
				}
			}
			// three steps over the mutators (special values and one ordinary value), from a special first element (thorough: also from 1)
			core := c19NOps(kind, []int{vals[0], vals[1], 1}, []int{c19NaNc, 7}, false)
			coreInits := []int{vals[0], vals[1]}
			if !g.Quick() {
				coreInits = append(coreInits, 1)
			}
			for _, init := range coreInits {
				c19NEnumerate(kind, init, 3, core, func(ops []c19Op) { emit("nan-exhaustive", kind, init, false, ops) })
			}
		}
		nrand := g.Pick(150, 2000)
		for c := 0; c < nrand; c++ {
			kind := g.Rng.Intn(2)
			quiet := c%3 == 2
			init, ops := c19NRandom(g, kind, inst, 20+g.Rng.Intn(60), quiet)
			emit("nan-random", kind, init, quiet, ops)
		}
	}
	g.Exhaustive("nan-exhaustive")
}
