package main

import (
	"fmt"
	"strings"
	"sync"
	"sync/atomic"
	"time"

	"github.com/esimov/gogu"
)

// C20 — Delay / NewDebounce / NewThrottle (func.go).  Mirror of coq/theories/C20_Wire.v.
//
// The wire INPUT is the script (durations in microseconds):
//
//	Delay     0 wait stop slack margin [cb]            (stop < 0: the timer is never stopped; cb: the callback
//	                                                   keeps running for cb after it has recorded its start)
//	Debounce  1 wait slack margin (op arg)*            op 0 Call, 1 Cancel, 2 Sleep arg, 3 Call with a slow
//	                                                   callback (it keeps running for arg after its start)
//	Throttle  2 d trailing slack margin (op arg)*      op 0 Call, 1 Next (own goroutine; the main goroutine
//	                                                   waits up to arg for it), 2 Cancel, 3 Sleep arg
//
// The OBSERVATION is what was measured while the script ran on the real code:
// monotonic instants in ns since the start of the case taken immediately
// before/after each call and inside each callback, and the outcomes:
//
//	Delay     b a nruns trun sb sa sret F
//	Debounce  per Call b a nruns trun; per Cancel b a; then F (instant of the final inspection)
//	Throttle  per Call/Cancel b a; per Next b a r (inside its goroutine; r 0 false, 1 true, 3 never
//	          returned); then the bracket Fb Fa of the harness's own final Cancel
//
// Nothing is judged here.  Upper bounds on latency are never part of an
// observation's meaning except through `margin` (>= 10*wait + 200 ms): the
// harness lets that much time pass before the final inspection / final Cancel
// whenever something may still be owed.

const (
	c20SlackUs = 1500
	c20Grace   = 3 * time.Second // after the final Cancel, for Next goroutines to come back
)

func c20Margin(waitUs int64) int64 { return 10*waitUs + 200000 }

func usDur(us int64) time.Duration { return time.Duration(us) * time.Microsecond }

type c20Clock struct{ start time.Time }

func (c c20Clock) now() int64 { return int64(time.Since(c.start)) }

func c20Ops(rest []int64) [][2]int64 {
	var ops [][2]int64
	for i := 0; i < len(rest); i += 2 {
		var a int64
		if i+1 < len(rest) {
			a = rest[i+1]
		}
		ops = append(ops, [2]int64{rest[i], a})
	}
	return ops
}

func execC20(in []int64) (out []int64) {
	bad := []int64{-1}
	if len(in) < 1 {
		return bad
	}
	if try(func() {
		switch in[0] {
		case 0:
			if len(in) != 5 && len(in) != 6 {
				out = bad
				return
			}
			var cb int64
			if len(in) == 6 {
				cb = in[5]
			}
			out = c20Delay(in[1], in[2], in[4], cb)
		case 1:
			if len(in) < 4 {
				out = bad
				return
			}
			out = c20Debounce(in[1], in[3], c20Ops(in[4:]))
		case 2:
			if len(in) < 5 {
				out = bad
				return
			}
			out = c20Throttle(in[1], in[2] != 0, in[4], c20Ops(in[5:]))
		default:
			out = bad
		}
	}) {
		return []int64{-2}
	}
	return out
}

func c20Delay(waitUs, stopUs, marginUs, cbUs int64) []int64 {
	clk := c20Clock{time.Now()}
	var n, tr int64 = 0, -1
	b := clk.now()
	timer := gogu.Delay(usDur(waitUs), func() {
		t := clk.now()
		if atomic.AddInt64(&n, 1) == 1 {
			atomic.StoreInt64(&tr, t)
		}
		if cbUs > 0 { // a slow callback: still running when the Stop / the inspection comes
			time.Sleep(usDur(cbUs))
		}
	})
	a := clk.now()
	var sb, sa, sret int64 = -1, -1, 0
	if stopUs >= 0 {
		time.Sleep(usDur(stopUs))
		sb = clk.now()
		ok := timer.Stop()
		sa = clk.now()
		sret = b2i(ok)
	}
	until := time.Duration(a)*time.Nanosecond + usDur(waitUs+marginUs+10000)
	if sret == 1 {
		until = time.Duration(sa)*time.Nanosecond + usDur(2*waitUs+20000)
	}
	if rem := until - time.Duration(clk.now()); rem > 0 {
		time.Sleep(rem)
	}
	f := clk.now()
	return []int64{b, a, atomic.LoadInt64(&n), atomic.LoadInt64(&tr), sb, sa, sret, f}
}

func c20Debounce(waitUs, marginUs int64, ops [][2]int64) []int64 {
	type drec struct{ b, a, n, tr int64 }
	clk := c20Clock{time.Now()}
	debounce, cancel := gogu.NewDebounce(usDur(waitUs))
	var recs []*drec // nil entry: a Cancel (b, a kept separately)
	var cans [][2]int64
	var order []int // 0 call, 1 cancel
	lastIsCall := false
	var lastA int64
	for _, op := range ops {
		switch op[0] {
		case 0, 3:
			r := &drec{tr: -1}
			var slow time.Duration
			if op[0] == 3 {
				slow = usDur(op[1])
			}
			r.b = clk.now()
			debounce(func() {
				t := clk.now()
				if atomic.AddInt64(&r.n, 1) == 1 {
					atomic.StoreInt64(&r.tr, t)
				}
				if slow > 0 { // a slow callback: later calls / cancels arrive while it is still running
					time.Sleep(slow)
				}
			})
			r.a = clk.now()
			recs = append(recs, r)
			order = append(order, 0)
			lastIsCall, lastA = true, r.a
		case 1:
			b := clk.now()
			cancel()
			a := clk.now()
			cans = append(cans, [2]int64{b, a})
			order = append(order, 1)
			lastIsCall, lastA = false, a
		case 2:
			time.Sleep(usDur(op[1]))
		}
	}
	until := time.Duration(lastA) + usDur(2*waitUs+20000)
	if lastIsCall {
		until = time.Duration(lastA) + usDur(waitUs+marginUs+10000)
	}
	if rem := until - time.Duration(clk.now()); rem > 0 {
		time.Sleep(rem)
	}
	f := clk.now()
	var out []int64
	ri, ci := 0, 0
	for _, o := range order {
		if o == 0 {
			r := recs[ri]
			ri++
			out = append(out, r.b, r.a, atomic.LoadInt64(&r.n), atomic.LoadInt64(&r.tr))
		} else {
			out = append(out, cans[ci][0], cans[ci][1])
			ci++
		}
	}
	return append(out, f)
}

type c20Next struct {
	b, a, r int64
	done    chan struct{}
}

func c20Throttle(dUs int64, trailing bool, marginUs int64, ops [][2]int64) []int64 {
	clk := c20Clock{time.Now()}
	th := gogu.NewThrottle(usDur(dUs), trailing)
	type slot struct {
		kind int
		b, a int64
		nx   *c20Next
	}
	var slots []slot
	var nexts []*c20Next
	for _, op := range ops {
		switch op[0] {
		case 0:
			b := clk.now()
			th.Call()
			a := clk.now()
			slots = append(slots, slot{kind: 0, b: b, a: a})
		case 2:
			b := clk.now()
			th.Cancel()
			a := clk.now()
			slots = append(slots, slot{kind: 2, b: b, a: a})
		case 3:
			time.Sleep(usDur(op[1]))
		case 1:
			nx := &c20Next{b: -1, a: -1, r: 3, done: make(chan struct{})}
			go func() {
				atomic.StoreInt64(&nx.b, clk.now())
				ok := th.Next()
				atomic.StoreInt64(&nx.a, clk.now())
				atomic.StoreInt64(&nx.r, b2i(ok))
				close(nx.done)
			}()
			if op[1] > 0 {
				tm := time.NewTimer(usDur(op[1]))
				select {
				case <-nx.done:
					tm.Stop()
				case <-tm.C:
				}
			}
			nexts = append(nexts, nx)
			slots = append(slots, slot{kind: 1, nx: nx})
		}
	}
	// quiescence: only while some Next is still out — otherwise nothing that is
	// owed could be observed
	deadline := time.NewTimer(usDur(dUs + 2*marginUs + 10000))
	for _, nx := range nexts {
		select {
		case <-nx.done:
			continue
		case <-deadline.C:
		}
		break
	}
	deadline.Stop()
	fb := clk.now()
	th.Cancel()
	fa := clk.now()
	grace := time.NewTimer(c20Grace)
	for _, nx := range nexts {
		select {
		case <-nx.done:
			continue
		case <-grace.C:
		}
		break
	}
	grace.Stop()
	var out []int64
	for _, s := range slots {
		if s.kind == 1 {
			r := atomic.LoadInt64(&s.nx.r)
			b := atomic.LoadInt64(&s.nx.b)
			a := atomic.LoadInt64(&s.nx.a)
			if r == 3 {
				a = -1
				if b < 0 { // the goroutine never even started: treat as started at the end
					b = fa
				}
			}
			out = append(out, b, a, r)
		} else {
			out = append(out, s.b, s.a)
		}
	}
	return append(out, fb, fa)
}

// ---------- description ----------

func describeC20(in []int64) string {
	if len(in) == 0 {
		return "?"
	}
	ms := func(us int64) string { return fmt.Sprintf("%gms", float64(us)/1000) }
	var sb strings.Builder
	switch in[0] {
	case 0:
		if len(in) != 5 && len(in) != 6 {
			return "?"
		}
		fmt.Fprintf(&sb, "Delay(%s)", ms(in[1]))
		if len(in) == 6 {
			fmt.Fprintf(&sb, " [callback runs for %s]", ms(in[5]))
		}
		if in[2] >= 0 {
			fmt.Fprintf(&sb, "; Sleep %s; timer.Stop()", ms(in[2]))
		}
	case 1:
		if len(in) < 4 {
			return "?"
		}
		fmt.Fprintf(&sb, "NewDebounce(%s):", ms(in[1]))
		for _, op := range c20Ops(in[4:]) {
			switch op[0] {
			case 0:
				sb.WriteString(" Call")
			case 1:
				sb.WriteString(" Cancel")
			case 3:
				fmt.Fprintf(&sb, " Call[callback runs for %s]", ms(op[1]))
			default:
				fmt.Fprintf(&sb, " Sleep(%s)", ms(op[1]))
			}
		}
	case 2:
		if len(in) < 5 {
			return "?"
		}
		fmt.Fprintf(&sb, "NewThrottle(%s, trailing=%v):", ms(in[1]), in[2] != 0)
		for _, op := range c20Ops(in[5:]) {
			switch op[0] {
			case 0:
				sb.WriteString(" Call")
			case 1:
				fmt.Fprintf(&sb, " go-Next(join<=%s)", ms(op[1]))
			case 2:
				sb.WriteString(" Cancel")
			default:
				fmt.Fprintf(&sb, " Sleep(%s)", ms(op[1]))
			}
		}
	default:
		return "?"
	}
	return sb.String()
}

// ---------- generation ----------

type c20Case struct {
	stream string
	in     []int64
	obs    []int64
}

func c20DelayIn(waitUs, stopUs int64) []int64 {
	return []int64{0, waitUs, stopUs, c20SlackUs, c20Margin(waitUs)}
}
func c20DebIn(waitUs int64, ops [][2]int64) []int64 {
	in := []int64{1, waitUs, c20SlackUs, c20Margin(waitUs)}
	for _, o := range ops {
		in = append(in, o[0], o[1])
	}
	return in
}
func c20ThrIn(dUs int64, trailing bool, ops [][2]int64) []int64 {
	in := []int64{2, dUs, b2i(trailing), c20SlackUs, c20Margin(dUs)}
	for _, o := range ops {
		in = append(in, o[0], o[1])
	}
	return in
}

// throttle alphabet for the exhaustive scope
func c20ThrAlpha(dUs int64) [][2]int64 {
	return [][2]int64{{0, 0}, {1, dUs / 4}, {1, 0}, {2, 0}, {3, dUs / 4}, {3, dUs * 3 / 2}}
}

// debounce alphabet: Call, Cancel, gap below the wait, gap above the wait
func c20DebAlpha(waitUs int64) [][2]int64 {
	return [][2]int64{{0, 0}, {1, 0}, {2, waitUs / 3}, {2, waitUs * 8 / 5}}
}

func c20RunAll(cases []*c20Case, par int) {
	var wg sync.WaitGroup
	ch := make(chan *c20Case)
	for i := 0; i < par; i++ {
		wg.Add(1)
		go func() {
			defer wg.Done()
			for c := range ch {
				c.obs = execC20(c.in)
			}
		}()
	}
	for _, c := range cases {
		ch <- c
	}
	close(ch)
	wg.Wait()
}

// nontrivial rule and distribution counters, from the script and what was observed
func c20Account(g *Gen, c *c20Case) bool {
	in, obs := c.in, c.obs
	switch in[0] {
	case 0:
		g.Count("kind=delay")
		g.Count(fmt.Sprintf("wait=%dms", in[1]/1000))
		if in[2] >= 0 {
			g.Count("delay:with-stop")
			if len(obs) == 8 {
				if obs[6] == 1 {
					g.Count("delay:stop-succeeded")
				}
				// deciding inequality: stop instant vs deadline
				if d := obs[5] - (obs[0] + in[1]*1000); d > -3000000 && d < 3000000 {
					g.Count("discarded:stop-within-3ms-of-deadline")
				}
			}
		}
		return in[2] >= 0
	case 1:
		g.Count("kind=debounce")
		g.Count(fmt.Sprintf("wait=%dms", in[1]/1000))
		ops := c20Ops(in[4:])
		calls, cancels, runs := 0, 0, 0
		cancelAfterCall := false
		i := 0
		var prevB int64 = -1
		var slowUntil int64 = -1
		for _, o := range ops {
			switch o[0] {
			case 0, 3:
				calls++
				g.Count("op:deb.Call")
				if o[0] == 3 {
					g.Count("op:deb.Call-with-slow-callback")
					if i+3 < len(obs) && obs[i+2] > 0 {
						slowUntil = obs[i+3] + o[1]*1000
					}
				} else if i+3 < len(obs) && obs[i] < slowUntil {
					g.Count("deb:call-while-a-callback-is-running")
				}
				if i+3 < len(obs) {
					if obs[i+2] > 0 {
						runs++
					}
					if prevB >= 0 {
						// deciding inequality: this call vs the previous call's deadline
						if d := obs[i+1] - (prevB + in[1]*1000); d > -3000000 && d < 3000000 {
							g.Count("discarded:call-within-3ms-of-previous-deadline")
						}
					}
					prevB = obs[i]
				}
				i += 4
			case 1:
				cancels++
				g.Count("op:deb.Cancel")
				if calls > 0 {
					cancelAfterCall = true
				}
				if i+1 < len(obs) && prevB >= 0 {
					if d := obs[i+1] - (prevB + in[1]*1000); d > -3000000 && d < 3000000 {
						g.Count("discarded:cancel-within-3ms-of-deadline")
					}
				}
				prevB = -1
				i += 2
			default:
				g.Count("op:deb.Sleep")
			}
		}
		g.Count(fmt.Sprintf("deb:calls=%s", bucket(calls)))
		g.Count(fmt.Sprintf("deb:runs=%s", bucket(runs)))
		if runs < calls {
			g.Count("deb:some-call-superseded-or-cancelled")
		}
		return calls >= 2 || cancelAfterCall
	case 2:
		g.Count("kind=throttle")
		g.Count(fmt.Sprintf("d=%dms", in[1]/1000))
		if in[2] != 0 {
			g.Count("trailing=true")
		} else {
			g.Count("trailing=false")
		}
		ops := c20Ops(in[5:])
		i := 0
		grants, falses, nexts, calls := 0, 0, 0, 0
		var lastGrant int64 = -1
		grantThenMore := false
		var pendingSince int64 = -1 // first trigger since the last permission
		lateHandout := false        // the last permission was picked up more than a period after that trigger
		for _, o := range ops {
			switch o[0] {
			case 0:
				calls++
				g.Count("op:thr.Call")
				if grants > 0 {
					grantThenMore = true
				}
				if i+1 < len(obs) && pendingSince < 0 {
					pendingSince = obs[i]
				}
				if i+1 < len(obs) && lastGrant >= 0 {
					delta := obs[i] - lastGrant
					if x := delta - in[1]*1000; x > -3000000 && x < 3000000 {
						g.Count("discarded:call-within-3ms-of-period-end")
					} else if x < 0 {
						g.Count("thr:call-inside-period")
						if lateHandout {
							g.Count("thr:call-inside-period-of-a-late-handout")
						}
					} else {
						g.Count("thr:call-outside-period")
					}
				}
				i += 2
			case 2:
				g.Count("op:thr.Cancel")
				i += 2
			case 1:
				nexts++
				g.Count("op:thr.Next")
				if grants > 0 {
					grantThenMore = true
				}
				if i+2 < len(obs) {
					switch obs[i+2] {
					case 1:
						grants++
						lastGrant = obs[i+1]
						if obs[i+1]-obs[i] > 1000000 {
							g.Count("thr:grant-after-blocking>1ms")
						}
						lateHandout = pendingSince >= 0 && obs[i]-pendingSince > in[1]*1000
						if lateHandout {
							g.Count("thr:slow-consumer(permission-picked-up>period-after-trigger)")
						}
						pendingSince = -1
					case 0:
						falses++
					default:
						g.Count("thr:next-never-returned")
					}
				}
				i += 3
			default:
				g.Count("op:thr.Sleep")
			}
		}
		g.Count(fmt.Sprintf("thr:grants=%s", bucket(grants)))
		g.Count(fmt.Sprintf("thr:nexts=%s", bucket(nexts)))
		return grants >= 1 && grantThenMore
	}
	return false
}

func bucket(n int) string {
	switch {
	case n <= 3:
		return fmt.Sprint(n)
	case n <= 9:
		return "4-9"
	default:
		return "10+"
	}
}

func genC20(g *Gen) {
	var cases []*c20Case
	add := func(stream string, in []int64) { cases = append(cases, &c20Case{stream: stream, in: in}) }

	// ---- exhaustive: Delay, every wait, every placement of Stop relative to the deadline
	for _, w := range []int64{5000, 10000, 20000, 50000} {
		add("exhaustive", c20DelayIn(w, -1))
		for _, s := range []int64{0, w / 2, w * 3 / 2, w * 2} {
			add("exhaustive", c20DelayIn(w, s))
		}
	}
	// ---- exhaustive: debounce scripts over {Call, Cancel, gap<wait, gap>wait}
	debLen := g.Pick(4, 6)
	for _, w := range []int64{10000} {
		al := c20DebAlpha(w)
		seqsUpTo(len(al), debLen, func(seq []int) {
			ops := make([][2]int64, len(seq))
			for i, v := range seq {
				ops[i] = al[v]
			}
			add("exhaustive", c20DebIn(w, ops))
		})
	}
	// bursts of 1..50 calls, gaps below/above the wait between bursts, every placement of cancel
	for _, w := range []int64{5000, 10000, 20000, 50000} {
		sizes := []int{1, 2, 3, 10, 50}
		if !g.Quick() {
			sizes = []int{1, 2, 3, 5, 10, 20, 35, 50}
		}
		for _, n1 := range sizes {
			for _, n2 := range []int{0, 1, 50} {
				for _, gap := range []int64{w / 3, w * 8 / 5} {
					for cancelAt := 0; cancelAt <= 4; cancelAt++ { // 0 none, 1 after burst 1, 2 after the gap, 3 after burst 2, 4 inside burst 1
						if n2 == 0 && (cancelAt == 2 || cancelAt == 3) {
							continue
						}
						var ops [][2]int64
						for i := 0; i < n1; i++ {
							ops = append(ops, [2]int64{0, 0})
							if cancelAt == 4 && i == n1/2 {
								ops = append(ops, [2]int64{1, 0})
							}
						}
						if cancelAt == 1 {
							ops = append(ops, [2]int64{1, 0})
						}
						if n2 > 0 {
							ops = append(ops, [2]int64{2, gap})
							if cancelAt == 2 {
								ops = append(ops, [2]int64{1, 0})
							}
							for i := 0; i < n2; i++ {
								ops = append(ops, [2]int64{0, 0})
							}
							if cancelAt == 3 {
								ops = append(ops, [2]int64{1, 0})
							}
						}
						add("exhaustive", c20DebIn(w, ops))
					}
				}
			}
		}
	}
	// ---- exhaustive: throttle scripts over {Call, Next(join), Next(no join), Cancel, short sleep, long sleep}
	type scope struct {
		d   int64
		len int
	}
	scopes := []scope{{20000, 4}, {5000, 3}}
	if !g.Quick() {
		scopes = []scope{{20000, 6}, {5000, 5}, {10000, 4}, {50000, 4}}
	}
	for _, sc := range scopes {
		al := c20ThrAlpha(sc.d)
		for _, trailing := range []bool{false, true} {
			seqsUpTo(len(al), sc.len, func(seq []int) {
				ops := make([][2]int64, len(seq))
				for i, v := range seq {
					ops[i] = al[v]
				}
				add("exhaustive", c20ThrIn(sc.d, trailing, ops))
			})
		}
	}
	// ---- period probes: a permission, then a trigger (or several) at a chosen fraction of the period,
	// then one or two Nexts — every wait, trailing on and off
	for _, d := range []int64{5000, 10000, 20000, 50000} {
		for _, trailing := range []bool{false, true} {
			for _, num := range []int64{1, 2, 3, 4} { // sleep = num*d/4 + d/8 : 3/8, 5/8, 7/8, 9/8 of the period
				sl := num*d/4 + d/8
				for _, ncall := range []int{1, 2} {
					for _, nnext := range []int{1, 2} {
						ops := [][2]int64{{0, 0}, {1, d / 4}, {3, sl}}
						for i := 0; i < ncall; i++ {
							ops = append(ops, [2]int64{0, 0})
						}
						for i := 0; i < nnext; i++ {
							ops = append(ops, [2]int64{1, d / 4})
						}
						add("exhaustive", c20ThrIn(d, trailing, ops))
						// the same with the Nexts already blocked when the trigger arrives
						ops2 := [][2]int64{{0, 0}, {1, d / 4}}
						for i := 0; i < nnext; i++ {
							ops2 = append(ops2, [2]int64{1, 0})
						}
						ops2 = append(ops2, [2]int64{3, sl})
						for i := 0; i < ncall; i++ {
							ops2 = append(ops2, [2]int64{0, 0})
						}
						ops2 = append(ops2, [2]int64{3, d * 3 / 2})
						add("exhaustive", c20ThrIn(d, trailing, ops2))
					}
				}
			}
		}
	}
	// ---- stale-start probes: one or two Nexts are already blocked for 1.5 .. 3 periods when the first
	// trigger arrives; a second trigger and a further Next follow within a fraction of the period
	// (the start of the period must be the instant of the handout, not the instant Next was entered);
	// and a Cancel with one, two or three Nexts blocked (every one of them must be released)
	for _, d := range []int64{5000, 10000, 20000, 50000} {
		for _, trailing := range []bool{false, true} {
			for _, pend := range []int64{d * 3 / 2, d * 2, d * 3} {
				for _, gap := range []int64{d / 8, d / 4, d / 2} {
					for _, nblocked := range []int{1, 2} {
						var ops [][2]int64
						for i := 0; i < nblocked; i++ {
							ops = append(ops, [2]int64{1, 0})
						}
						ops = append(ops, [2]int64{3, pend}, [2]int64{0, 0}, [2]int64{3, gap}, [2]int64{0, 0}, [2]int64{1, d / 4})
						add("exhaustive", c20ThrIn(d, trailing, ops))
					}
				}
				for _, nblocked := range []int{1, 2, 3} {
					var ops [][2]int64
					for i := 0; i < nblocked; i++ {
						ops = append(ops, [2]int64{1, 0})
					}
					ops = append(ops, [2]int64{3, pend}, [2]int64{2, 0})
					add("exhaustive", c20ThrIn(d, trailing, ops))
					// a trigger first: one blocked Next is granted, the others are released by the Cancel
					ops2 := append(append([][2]int64{}, ops[:nblocked+1]...), [2]int64{0, 0}, [2]int64{3, d / 4}, [2]int64{2, 0})
					add("exhaustive", c20ThrIn(d, trailing, ops2))
				}
			}
		}
	}
	// ---- slow-consumer probes: the consumer is SLOWER than the interval — a permission sits unconsumed for
	// p (half a period .. three periods) before Next picks it up, and the next trigger arrives g after that
	// Next: the period counts from the instant Next handed the permission out, not from the instant the
	// trigger (or the trailing-edge timer) made it available.  Every wait, trailing on and off.
	for _, d := range []int64{5000, 10000, 20000, 50000} {
		for _, trailing := range []bool{false, true} {
			J := [2]int64{1, d / 4} // Next, the main goroutine waits up to d/4 for it
			C := [2]int64{0, 0}
			S := func(us int64) [2]int64 { return [2]int64{3, us} }
			for _, g2 := range []int64{0, d / 4, d * 5 / 8} {
				for _, p := range []int64{d / 2, d * 3 / 2, d * 3} {
					// (A) Call; pause p; Next; [pause g]; Call; Next
					add("exhaustive", c20ThrIn(d, trailing, [][2]int64{C, S(p), J, S(g2), C, J}))
					// (B) several triggers during the pause; the second Next is already blocked when the
					//     trigger after the hand-out arrives
					add("exhaustive", c20ThrIn(d, trailing, [][2]int64{C, S(p / 2), C, S(p / 2), J, {1, 0}, S(g2), C, S(d * 3 / 2)}))
				}
				// (C) the permission raised by the TRAILING-EDGE timer is picked up late: permission, trigger at
				//     d/4 (timer armed for the trailing edge), pause q past the edge, Next, [pause g], Call, Next
				for _, q := range []int64{d * 5 / 4, d * 2, d * 3} {
					add("exhaustive", c20ThrIn(d, trailing, [][2]int64{C, J, S(d / 4), C, S(q), J, S(g2), C, J}))
				}
			}
			// (D) a consumer that is steadily slower than the interval: three rounds of trigger / pause / Next
			for _, p := range []int64{d / 2, d * 3 / 2, d * 5 / 2} {
				add("exhaustive", c20ThrIn(d, trailing, [][2]int64{C, S(p), J, C, S(p), J, C, S(p), J}))
			}
			// (E) a prompt permission, then a late trigger that is consumed at once (the period restarts
			//     at THAT hand-out), then a trigger g later and a Next
			for _, p := range []int64{d * 5 / 4, d * 3 / 2, d * 7 / 4} {
				for _, g2 := range []int64{d / 8, d / 2, d * 3 / 4} {
					add("exhaustive", c20ThrIn(d, trailing, [][2]int64{C, J, S(p), C, J, S(g2), C, J}))
				}
			}
		}
	}
	// ---- slow callbacks (debounce, Delay): the callback is still running when the next call / cancel /
	// Stop arrives.  A call made meanwhile is an ordinary call: it runs, once, no sooner than the wait later.
	for _, w := range []int64{5000, 10000, 20000, 50000} {
		for _, c := range []int64{w * 3 / 2, w * 3} {
			SC := [2]int64{3, c}
			C := [2]int64{0, 0}
			S := func(us int64) [2]int64 { return [2]int64{2, us} }
			during := w + w/4 // the first callback started at about w and runs until w + c
			add("exhaustive", c20DebIn(w, [][2]int64{SC, S(during), C}))
			add("exhaustive", c20DebIn(w, [][2]int64{SC, S(during), C, C, S(w / 3), C}))
			add("exhaustive", c20DebIn(w, [][2]int64{SC, S(during), C, {1, 0}}))
			add("exhaustive", c20DebIn(w, [][2]int64{SC, S(during), {1, 0}, C}))
			add("exhaustive", c20DebIn(w, [][2]int64{SC, S(during), SC, S(during), SC}))
			add("exhaustive", c20DebIn(w, [][2]int64{SC, S(during), SC, S(w / 3), C, S(w * 8 / 5), C}))
			add("exhaustive", c20DebIn(w, [][2]int64{SC, S(w / 3), SC, S(during), C}))
			for _, s := range []int64{-1, w / 2, w + w/4, w + c + w/4} { // no Stop, before the firing, during the callback, after it
				add("exhaustive", append(c20DelayIn(w, s), c))
			}
		}
	}
	g.Exhaustive("exhaustive")

	// ---- seeded random: longer scripts, every wait, arbitrary sleeps up to 2.2 periods
	waits := []int64{5000, 10000, 20000, 50000}
	nrand := g.Pick(400, 6000)
	for i := 0; i < nrand; i++ {
		w := waits[g.Rng.Intn(len(waits))]
		n := 1 + g.Rng.Intn(g.Pick(6, 9))
		switch g.Rng.Intn(5) {
		case 0: // debounce
			var ops [][2]int64
			for j := 0; j < n; j++ {
				switch g.Rng.Intn(6) {
				case 0:
					ops = append(ops, [2]int64{1, 0})
				case 1, 2:
					ops = append(ops, [2]int64{2, g.Rng.Int63n(w*22/10 + 1)})
				default:
					burst := 1
					if g.Rng.Intn(3) == 0 {
						burst = 1 + g.Rng.Intn(50)
					}
					for b := 0; b < burst; b++ {
						ops = append(ops, [2]int64{0, 0})
					}
					if g.Rng.Intn(4) == 0 { // the burst ends with a call whose callback runs for up to 3 waits
						ops[len(ops)-1] = [2]int64{3, g.Rng.Int63n(3*w + 1)}
					}
				}
			}
			add("random", c20DebIn(w, ops))
		case 1: // throttle with a slow consumer: rounds of triggers, a pause of up to 3 periods, a Next, a short pause
			var ops [][2]int64
			rounds := 2 + g.Rng.Intn(g.Pick(2, 3))
			for j := 0; j < rounds; j++ {
				for c := 1 + g.Rng.Intn(2); c > 0; c-- {
					ops = append(ops, [2]int64{0, 0})
				}
				if g.Rng.Intn(4) != 0 {
					ops = append(ops, [2]int64{3, g.Rng.Int63n(3*w + 1)})
				}
				ops = append(ops, [2]int64{1, []int64{0, w / 4, w / 4, w * 2}[g.Rng.Intn(4)]})
				if g.Rng.Intn(2) == 0 {
					ops = append(ops, [2]int64{3, g.Rng.Int63n(w + 1)})
				}
			}
			add("random", c20ThrIn(w, g.Rng.Intn(2) == 0, ops))
		default: // throttle
			var ops [][2]int64
			for j := 0; j < n; j++ {
				switch g.Rng.Intn(8) {
				case 0:
					ops = append(ops, [2]int64{2, 0})
				case 1, 2:
					ops = append(ops, [2]int64{3, g.Rng.Int63n(w*22/10 + 1)})
				case 3, 4:
					ops = append(ops, [2]int64{1, []int64{0, w / 4, w, w * 2}[g.Rng.Intn(4)]})
				default:
					ops = append(ops, [2]int64{0, 0})
				}
			}
			add("random", c20ThrIn(w, g.Rng.Intn(2) == 0, ops))
		}
	}

	// ---- degenerate configurations (the "malformed" stream): zero waits, zero sleeps, empty scripts
	add("malformed", c20DelayIn(0, -1))
	add("malformed", c20DelayIn(0, 0))
	add("malformed", c20DebIn(0, [][2]int64{{0, 0}, {0, 0}, {2, 0}, {1, 0}, {0, 0}}))
	add("malformed", c20DebIn(5000, nil))
	add("malformed", c20DebIn(5000, [][2]int64{{1, 0}, {1, 0}}))
	for _, tr := range []bool{false, true} {
		add("malformed", c20ThrIn(0, tr, [][2]int64{{0, 0}, {1, 1000}, {0, 0}, {1, 1000}, {3, 0}, {0, 0}, {1, 1000}}))
		add("malformed", c20ThrIn(5000, tr, nil))
		add("malformed", c20ThrIn(5000, tr, [][2]int64{{2, 0}, {2, 0}, {0, 0}, {1, 1000}}))
	}

	par := 192
	if !g.Quick() {
		par = 384
	}
	c20RunAll(cases, par)
	for _, c := range cases {
		nt := c20Account(g, c)
		g.Raw(c.stream, nt, c.in, c.obs)
	}
}

func init() {
	register(&Prop{
		ID: "C20",
		Rule: "scripts run on the real Delay/NewDebounce/NewThrottle with every call bracketed by monotonic-clock readings; " +
			"exhaustive: Delay x {no stop, stop at 0, w/2, 1.5w, 2w} for w in {5,10,20,50} ms; all debounce scripts over " +
			"{Call, Cancel, gap w/3, gap 1.6w} up to length 4 (thorough 6); bursts of 1..50 calls x second burst x gap below/above x every " +
			"placement of cancel for every wait; all throttle scripts over {Call, Next joined <= d/4, Next not joined, Cancel, sleep d/4, " +
			"sleep 1.5d} up to length 4 at d = 20 ms and 3 at 5 ms (thorough 6/5/4/4 at 20/5/10/50 ms), trailing on and off; period probes (a permission, " +
			"then 1-2 triggers at 3/8, 5/8, 7/8, 9/8 of the period, with 1-2 Nexts after them or already blocked) for every wait; stale-start probes " +
			"(1-2 Nexts blocked for 1.5, 2, 3 periods before the first trigger, then a second trigger d/8, d/4, d/2 later and a further Next; Cancel with " +
			"1-3 Nexts blocked, with and without a trigger before it) for every wait; slow-consumer probes for every wait, trailing on and off " +
			"(a permission left unconsumed for d/2, 1.5d, 3d — one or several triggers during the pause — then Next, a trigger 0, d/4, 5d/8 later and a " +
			"further Next, after it or already blocked; the same with the permission raised by the trailing-edge timer and picked up 1.25d, 2d, 3d later; " +
			"three rounds of a steadily slow consumer; a late trigger consumed at once followed by a trigger d/8, d/2, 3d/4 later); slow callbacks " +
			"(debounce calls, bursts and cancels arriving while a callback that runs for 1.5 or 3 waits is still running; Delay with such a callback and " +
			"Stop before / during / after it) for every wait; then seeded random " +
			"scripts with arbitrary sleeps. Non-trivial: Delay with a Stop; debounce with >= 2 calls or a cancel after a call; throttle with a " +
			"permission followed by a further Call or Next. Counters named discarded:* count comparisons whose deciding inequality " +
			"has < 3 ms of slack (the acceptor then allows both outcomes).",
		Exec:     execC20,
		Gen:      genC20,
		Describe: describeC20,
	})
}
