// Command race (built with `go build -race -tags verif`) runs the public methods
// of the lock-guarded containers of the tree under test concurrently on one
// shared instance — pairs (triples / long mixes in the thorough tier), small
// initial contents, both start orders, randomised GOMAXPROCS and injected
// yields — and reports, per scenario, recovered panics, hangs (watchdog) and a
// post-scenario sanity sequence.  Data races are reported by the race detector
// on stderr; a marker line `@@SCENARIO <name>` precedes each scenario so the
// caller can attribute the reports.
//
//	race <tier> <seed> <out.jsonl> [filter-substring ...]
//
// It is the search for a failing schedule and a validation of the translator's
// skeletons (C01); it proves nothing.
package main

import (
	"encoding/json"
	"fmt"
	"math/rand"
	"os"
	"runtime"
	"strconv"
	"strings"
	"sync"
	"time"

	"github.com/esimov/gogu/bstree"
	"github.com/esimov/gogu/cache"
	"github.com/esimov/gogu/heap"
	"github.com/esimov/gogu/queue"
	"github.com/esimov/gogu/stack"
	"github.com/esimov/gogu/trie"
)

type method struct {
	name string
	run  func(inst any, r *rand.Rand)
}

type typ struct {
	name    string
	states  int
	mk      func(state int) any
	methods []method
	sanity  func(inst any) string // "" = fine
}

// use keeps a value alive without sharing memory between goroutines
func use(x int) {
	if x == -987654321 {
		println("unreachable")
	}
}

func lt(a, b int) bool { return a < b }
func gt(a, b int) bool { return a > b }

func types_() []typ {
	return []typ{
		{name: "heap.Heap", states: 4,
			mk: func(s int) any {
				h := heap.NewHeap(lt)
				for i := 0; i < []int{0, 1, 3, 6}[s]; i++ {
					h.Push(i + 1)
				}
				return h
			},
			methods: []method{
				{"Size", func(i any, r *rand.Rand) { use(i.(*heap.Heap[int]).Size()) }},
				{"IsEmpty", func(i any, r *rand.Rand) { i.(*heap.Heap[int]).IsEmpty() }},
				{"Clear", func(i any, r *rand.Rand) { i.(*heap.Heap[int]).Clear() }},
				{"Peek", func(i any, r *rand.Rand) { use(i.(*heap.Heap[int]).Peek()) }},
				{"GetValues", func(i any, r *rand.Rand) {
					for _, v := range i.(*heap.Heap[int]).GetValues() {
						use(v)
					}
				}},
				{"Push", func(i any, r *rand.Rand) { i.(*heap.Heap[int]).Push(r.Intn(8)) }},
				{"Push2", func(i any, r *rand.Rand) { i.(*heap.Heap[int]).Push(r.Intn(8), r.Intn(8)) }},
				{"Pop", func(i any, r *rand.Rand) { use(i.(*heap.Heap[int]).Pop()) }},
				{"Delete", func(i any, r *rand.Rand) { i.(*heap.Heap[int]).Delete(1 + r.Intn(4)) }},
				{"Convert", func(i any, r *rand.Rand) { i.(*heap.Heap[int]).Convert(gt) }},
				{"Merge", func(i any, r *rand.Rand) {
					o := heap.NewHeap(lt)
					o.Push(9)
					use(i.(*heap.Heap[int]).Merge(o).Size())
				}},
				{"MergeInto", func(i any, r *rand.Rand) {
					o := heap.NewHeap(lt)
					o.Push(9)
					use(o.Merge(i.(*heap.Heap[int])).Size())
				}},
				{"Meld", func(i any, r *rand.Rand) {
					o := heap.NewHeap(lt)
					o.Push(9)
					use(i.(*heap.Heap[int]).Meld(o).Size())
				}},
			},
			sanity: func(i any) string {
				h := i.(*heap.Heap[int])
				h.Clear()
				h.Push(3, 1, 2)
				if h.Size() != 3 || h.Pop() > 3 {
					return "heap unusable after scenario"
				}
				return ""
			}},
		{name: "bstree.BsTree", states: 3,
			mk: func(s int) any {
				b := bstree.New[int, int](lt)
				for _, k := range [][]int{{}, {2}, {4, 2, 6, 1, 3, 5, 7}}[s] {
					b.Upsert(k, k*10)
				}
				return b
			},
			methods: []method{
				{"Size", func(i any, r *rand.Rand) { use(i.(*bstree.BsTree[int, int]).Size()) }},
				{"Get", func(i any, r *rand.Rand) { it, _ := i.(*bstree.BsTree[int, int]).Get(1 + r.Intn(7)); use(it.Val) }},
				{"Upsert", func(i any, r *rand.Rand) { i.(*bstree.BsTree[int, int]).Upsert(1+r.Intn(8), 5) }},
				{"Delete", func(i any, r *rand.Rand) { i.(*bstree.BsTree[int, int]).Delete(1 + r.Intn(7)) }},
				{"Traverse", func(i any, r *rand.Rand) {
					i.(*bstree.BsTree[int, int]).Traverse(func(it bstree.Item[int, int]) { use(it.Val) })
				}},
			},
			sanity: func(i any) string {
				b := i.(*bstree.BsTree[int, int])
				b.Upsert(100, 1)
				if it, err := b.Get(100); err != nil || it.Val != 1 {
					return "bstree unusable after scenario"
				}
				return ""
			}},
		{name: "trie.Trie", states: 3,
			mk: func(s int) any {
				t := trie.New[string, int](queue.New[string]())
				for _, k := range [][]string{{}, {"a"}, {"ab", "a", "b", "abc", "ba"}}[s] {
					t.Put(k, 1)
				}
				return t
			},
			methods: []method{
				{"Size", func(i any, r *rand.Rand) { use(i.(*trie.Trie[string, int]).Size()) }},
				{"Contains", func(i any, r *rand.Rand) { i.(*trie.Trie[string, int]).Contains([]string{"a", "ab", "c"}[r.Intn(3)]) }},
				{"Put", func(i any, r *rand.Rand) { i.(*trie.Trie[string, int]).Put([]string{"a", "ab", "c", "abd"}[r.Intn(4)], 2) }},
				{"Get", func(i any, r *rand.Rand) { v, _ := i.(*trie.Trie[string, int]).Get([]string{"a", "ab", "c"}[r.Intn(3)]); use(v) }},
				{"LongestPrefix", func(i any, r *rand.Rand) { i.(*trie.Trie[string, int]).LongestPrefix("abcd") }},
				{"StartsWith", func(i any, r *rand.Rand) {
					q, _ := i.(*trie.Trie[string, int]).StartsWith("a")
					for q.Size() > 0 {
						if _, err := q.Dequeue(); err != nil {
							break
						}
					}
				}},
				{"Keys", func(i any, r *rand.Rand) {
					q, _ := i.(*trie.Trie[string, int]).Keys()
					for q.Size() > 0 {
						if _, err := q.Dequeue(); err != nil {
							break
						}
					}
				}},
			},
			sanity: func(i any) string {
				t := i.(*trie.Trie[string, int])
				t.Put("zz", 7)
				if v, ok := t.Get("zz"); !ok || v != 7 {
					return "trie unusable after scenario"
				}
				return ""
			}},
		{name: "queue.Queue", states: 3,
			mk: func(s int) any {
				q := queue.New[int]()
				for i := 0; i < []int{0, 1, 4}[s]; i++ {
					q.Enqueue(i + 1)
				}
				return q
			},
			methods: []method{
				{"Enqueue", func(i any, r *rand.Rand) { i.(*queue.Queue[int]).Enqueue(r.Intn(5)) }},
				{"Dequeue", func(i any, r *rand.Rand) { v, _ := i.(*queue.Queue[int]).Dequeue(); use(v) }},
				{"Peek", func(i any, r *rand.Rand) { use(i.(*queue.Queue[int]).Peek()) }},
				{"Search", func(i any, r *rand.Rand) { i.(*queue.Queue[int]).Search(r.Intn(5)) }},
				{"Size", func(i any, r *rand.Rand) { use(i.(*queue.Queue[int]).Size()) }},
				{"Clear", func(i any, r *rand.Rand) { i.(*queue.Queue[int]).Clear() }},
			},
			sanity: func(i any) string {
				q := i.(*queue.Queue[int])
				q.Clear()
				q.Enqueue(5)
				if v, err := q.Dequeue(); err != nil || v != 5 {
					return "queue unusable after scenario"
				}
				return ""
			}},
		{name: "queue.LQueue", states: 2,
			mk: func(s int) any {
				q := queue.NewLinked(1)
				for i := 0; i < []int{0, 3}[s]; i++ {
					q.Enqueue(i + 2)
				}
				return q
			},
			methods: []method{
				{"Enqueue", func(i any, r *rand.Rand) { i.(*queue.LQueue[int]).Enqueue(r.Intn(5)) }},
				{"Dequeue", func(i any, r *rand.Rand) { use(i.(*queue.LQueue[int]).Dequeue()) }},
				{"Peek", func(i any, r *rand.Rand) { use(i.(*queue.LQueue[int]).Peek()) }},
				{"Search", func(i any, r *rand.Rand) { i.(*queue.LQueue[int]).Search(r.Intn(5)) }},
				{"Size", func(i any, r *rand.Rand) { use(i.(*queue.LQueue[int]).Size()) }},
				{"Clear", func(i any, r *rand.Rand) { i.(*queue.LQueue[int]).Clear() }},
			},
			sanity: func(i any) string {
				q := i.(*queue.LQueue[int])
				q.Enqueue(5)
				q.Size()
				q.Peek()
				return ""
			}},
		{name: "stack.Stack", states: 3,
			mk: func(s int) any {
				q := stack.New[int]()
				for i := 0; i < []int{0, 1, 4}[s]; i++ {
					q.Push(i + 1)
				}
				return q
			},
			methods: []method{
				{"Push", func(i any, r *rand.Rand) { i.(*stack.Stack[int]).Push(r.Intn(5)) }},
				{"Pop", func(i any, r *rand.Rand) { use(i.(*stack.Stack[int]).Pop()) }},
				{"Peek", func(i any, r *rand.Rand) { use(i.(*stack.Stack[int]).Peek()) }},
				{"Search", func(i any, r *rand.Rand) { i.(*stack.Stack[int]).Search(r.Intn(5)) }},
				{"Size", func(i any, r *rand.Rand) { use(i.(*stack.Stack[int]).Size()) }},
			},
			sanity: func(i any) string {
				q := i.(*stack.Stack[int])
				q.Push(5)
				if q.Pop() != 5 {
					return "stack unusable after scenario"
				}
				return ""
			}},
		{name: "stack.LStack", states: 2,
			mk: func(s int) any {
				q := stack.NewLinked(1)
				for i := 0; i < []int{0, 3}[s]; i++ {
					q.Push(i + 2)
				}
				return q
			},
			methods: []method{
				{"Push", func(i any, r *rand.Rand) { i.(*stack.LStack[int]).Push(r.Intn(5)) }},
				{"Pop", func(i any, r *rand.Rand) { use(i.(*stack.LStack[int]).Pop()) }},
				{"Peek", func(i any, r *rand.Rand) { use(i.(*stack.LStack[int]).Peek()) }},
				{"Search", func(i any, r *rand.Rand) { i.(*stack.LStack[int]).Search(r.Intn(5)) }},
				{"Size", func(i any, r *rand.Rand) { use(i.(*stack.LStack[int]).Size()) }},
			},
			sanity: func(i any) string {
				q := i.(*stack.LStack[int])
				q.Push(5)
				q.Peek()
				q.Size()
				return ""
			}},
		{name: "cache.Cache", states: 3,
			mk: func(s int) any {
				// state 2 runs the background janitor too
				// (the janitor goroutine of a cache is never stopped while the cache is reachable from
				// it, so only a bounded number of janitor-carrying instances is created per process)
				cl := time.Duration(0)
				if s == 2 && janitors < 400 {
					janitors++
					cl = 2 * time.Millisecond
				}
				c := cache.New[string, int](time.Hour, cl)
				if s >= 1 {
					c.Set("a", 1, cache.DefaultExpiration)
					c.Set("b", 2, time.Nanosecond)
				}
				return c
			},
			methods: []method{
				{"Set", func(i any, r *rand.Rand) { i.(*cache.Cache[string, int]).Set([]string{"a", "c"}[r.Intn(2)], 3, cache.DefaultExpiration) }},
				{"SetDefault", func(i any, r *rand.Rand) { i.(*cache.Cache[string, int]).SetDefault("c", 3) }},
				{"Update", func(i any, r *rand.Rand) { i.(*cache.Cache[string, int]).Update("a", 4, cache.NoExpiration) }},
				{"Get", func(i any, r *rand.Rand) { it, _ := i.(*cache.Cache[string, int]).Get("a"); use(it.Val()) }},
				{"Delete", func(i any, r *rand.Rand) { i.(*cache.Cache[string, int]).Delete("a") }},
				{"DeleteExpired", func(i any, r *rand.Rand) { i.(*cache.Cache[string, int]).DeleteExpired() }},
				{"Flush", func(i any, r *rand.Rand) { i.(*cache.Cache[string, int]).Flush() }},
				{"List", func(i any, r *rand.Rand) {
					for _, it := range i.(*cache.Cache[string, int]).List() {
						use(it.Val())
					}
				}},
				{"Count", func(i any, r *rand.Rand) { use(i.(*cache.Cache[string, int]).Count()) }},
				{"MapToCache", func(i any, r *rand.Rand) {
					i.(*cache.Cache[string, int]).MapToCache(map[string]int{"c": 1, "d": 2}, cache.DefaultExpiration)
				}},
				{"IsExpired", func(i any, r *rand.Rand) { i.(*cache.Cache[string, int]).IsExpired("b") }},
			},
			sanity: func(i any) string {
				c := i.(*cache.Cache[string, int])
				c.Flush()
				if err := c.Set("k", 1, cache.NoExpiration); err != nil {
					return "cache unusable after scenario: " + err.Error()
				}
				if it, err := c.Get("k"); err != nil || it.Val() != 1 {
					return "cache unusable after scenario"
				}
				return ""
			}},
	}
}

var janitors int

type result struct {
	Scenario string `json:"scenario"`
	Type     string `json:"type"`
	Methods  []string `json:"methods"`
	State    int    `json:"state"`
	Reps     int    `json:"reps"`
	Panics   int    `json:"panics"`
	PanicMsg string `json:"panic_msg,omitempty"`
	Hangs    int    `json:"hangs"`
	Sanity   string `json:"sanity,omitempty"`
}

func runOnce(t *typ, ms []method, state int, order int, seed int64, watchdog time.Duration) (panicMsg string, hung bool, sanity string) {
	inst := t.mk(state)
	var wg sync.WaitGroup
	start := make(chan struct{})
	var pm sync.Mutex
	for k := range ms {
		idx := k
		if order == 1 {
			idx = len(ms) - 1 - k
		}
		m := ms[idx]
		wg.Add(1)
		go func(k int) {
			defer wg.Done()
			r := rand.New(rand.NewSource(seed + int64(k)*7919))
			defer func() {
				if e := recover(); e != nil {
					pm.Lock()
					panicMsg = fmt.Sprintf("%s: %v", m.name, e)
					pm.Unlock()
				}
			}()
			<-start
			for y := r.Intn(3) + k*int(seed%2); y > 0; y-- {
				runtime.Gosched()
			}
			m.run(inst, r)
		}(k)
	}
	done := make(chan struct{})
	go func() { wg.Wait(); close(done) }()
	close(start)
	select {
	case <-done:
	case <-time.After(watchdog / 4):
		// slow or stuck?  a deadlock never resolves; give a slow machine the full period
		select {
		case <-done:
		case <-time.After(watchdog):
			return panicMsg, true, ""
		}
	}
	// post-scenario sanity, itself under the watchdog
	sdone := make(chan string, 1)
	go func() {
		defer func() {
			if e := recover(); e != nil {
				sdone <- fmt.Sprintf("sanity sequence panicked: %v", e)
			}
		}()
		sdone <- t.sanity(inst)
	}()
	select {
	case s := <-sdone:
		sanity = s
	case <-time.After(watchdog + watchdog/4):
		sanity = "sanity sequence blocked (instance deadlocked)"
	}
	return panicMsg, false, sanity
}

func main() {
	tier := os.Args[1]
	seed, _ := strconv.ParseInt(os.Args[2], 10, 64)
	out, err := os.Create(os.Args[3])
	if err != nil {
		panic(err)
	}
	defer out.Close()
	filters := os.Args[4:]
	rng := rand.New(rand.NewSource(seed))
	reps := 60
	watchdog := 20 * time.Second
	if tier == "thorough" {
		reps = 400
		watchdog = 40 * time.Second
	}
	if v := os.Getenv("RACE_REPS"); v != "" {
		reps, _ = strconv.Atoi(v)
	}
	enc := json.NewEncoder(out)
	stuck := map[string]int{}
	match := func(name string) bool {
		if len(filters) == 0 {
			return true
		}
		for _, f := range filters {
			if strings.Contains(name, f) {
				return true
			}
		}
		return false
	}
	scenario := func(t *typ, ms []method, state int) {
		names := make([]string, len(ms))
		for i, m := range ms {
			names[i] = m.name
		}
		name := fmt.Sprintf("%s/%s/state%d", t.name, strings.Join(names, "||"), state)
		if !match(name) || stuck[t.name] >= 3 {
			return // (a type whose instances keep deadlocking is reported already; do not wait for the rest)
		}
		os.Stderr.WriteString("@@SCENARIO " + name + "\n")
		res := result{Scenario: name, Type: t.name, Methods: names, State: state, Reps: reps}
		for rep := 0; rep < reps; rep++ {
			if rep%16 == 0 {
				runtime.GOMAXPROCS(1 + rng.Intn(8))
			}
			pmsg, hung, sanity := runOnce(t, ms, state, rep%2, rng.Int63(), watchdog)
			if pmsg != "" {
				res.Panics++
				res.PanicMsg = pmsg
			}
			if hung {
				res.Hangs++
				break // the instance is stuck; goroutines are leaked
			}
			if sanity != "" {
				res.Sanity = sanity
				break
			}
		}
		if res.Hangs > 0 || strings.Contains(res.Sanity, "blocked") {
			stuck[t.name]++
		}
		enc.Encode(res)
	}
	ts := types_()
	for ti := range ts {
		t := &ts[ti]
		for i := 0; i < len(t.methods); i++ {
			for j := i; j < len(t.methods); j++ {
				for s := 0; s < t.states; s++ {
					scenario(t, []method{t.methods[i], t.methods[j]}, s)
				}
			}
		}
		if tier == "thorough" {
			// triples (sampled) and long random mixes
			n := len(t.methods)
			for k := 0; k < 60; k++ {
				a, b, c := rng.Intn(n), rng.Intn(n), rng.Intn(n)
				scenario(t, []method{t.methods[a], t.methods[b], t.methods[c]}, rng.Intn(t.states))
			}
			for k := 0; k < 10; k++ {
				var mix []method
				for x := 0; x < 12; x++ {
					mix = append(mix, t.methods[rng.Intn(n)])
				}
				scenario(t, mix, rng.Intn(t.states))
			}
		}
	}
	os.Stderr.WriteString("@@END\n")
}
