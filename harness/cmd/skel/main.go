// Command skel is the translator of C01/C02: it type-checks the packages of the
// tree under test (cwd must be its root) and emits, for every exported method
// of every lock-guarded type (a struct with a sync.RWMutex field, or a wrapper
// embedding a pointer to one), a lock/effect SKELETON as a Gallina term of
// type Lock.sk.  Nothing is decided here: the generated file is checked by the
// theorems of coq/theories/Lock.v (C01_Props.v / C02_Props.v).
//
//	skel <out.v> [<report.json>]
//
// What a skeleton records (see DESIGN.md §6 C01):
//   - Lock/Unlock/RLock/RUnlock on the instance's mutex (defer expanded to every exit);
//   - ARd l / AWr l for accesses to guarded state: l is the index of the field of
//     the guarded struct the access is rooted in (directly, or through a local
//     variable derived from it, or through a callee that receives such a value);
//   - AEscape l when a reference to mutable guarded data is returned;
//   - AExt for calls through function values / interfaces;
//   - a `go` statement contributes a separate thread skeleton.
//
// Conservative choices: a field that is never written anywhere in the module
// outside composite literals is immutable and reading it is not an access;
// variables initialised from new/&T{}/make/literals are local; a callee that
// does not lock is summarised by the set of effects it can have on its
// pointer-like parameters (fix-point over the module); a callee that locks and
// is invoked on the same instance is inlined.
package main

import (
	"encoding/json"
	"fmt"
	"go/ast"
	"go/importer"
	"go/parser"
	"go/token"
	"go/types"
	"os"
	"path/filepath"
	"sort"
	"strings"
)

const modPath = "github.com/esimov/gogu"

var pkgDirs = []string{"", "list", "queue", "stack", "heap", "bstree", "trie", "cache", "btree"}

type pkgInfo struct {
	path  string
	files []*ast.File
	info  *types.Info
	pkg   *types.Package
}

type world struct {
	fset  *token.FileSet
	pkgs  map[string]*pkgInfo
	std   types.Importer
	funcs map[*types.Func]*funcDecl // origin func -> decl
	// guarded struct (origin named type) -> info
	guarded map[*types.TypeName]*gtype
	written map[*types.Var]bool // fields written somewhere outside composite literals
	// fields marked written for a reason refineWritten cannot re-examine (through a summary)
	writtenHard map[*types.Var]bool
	summ    map[*types.Func]*summary
	locking map[*types.Func]bool
	warns   []string
}

type funcDecl struct {
	decl *ast.FuncDecl
	pi   *pkgInfo
	obj  *types.Func
}

type gtype struct {
	name   string
	tn     *types.TypeName
	st     *types.Struct
	mu     *types.Var
	fields []*types.Var // guarded fields (all but the mutex), index = location
}

// ---------- loading ----------

func (w *world) Import(path string) (*types.Package, error) {
	if path == modPath || strings.HasPrefix(path, modPath+"/") {
		pi, err := w.load(path)
		if err != nil {
			return nil, err
		}
		return pi.pkg, nil
	}
	return w.std.Import(path)
}

func (w *world) load(path string) (*pkgInfo, error) {
	if pi, ok := w.pkgs[path]; ok {
		return pi, nil
	}
	dir := "." + strings.TrimPrefix(path, modPath)
	ents, err := os.ReadDir(dir)
	if err != nil {
		return nil, err
	}
	pi := &pkgInfo{path: path}
	for _, e := range ents {
		n := e.Name()
		if !strings.HasSuffix(n, ".go") || strings.HasSuffix(n, "_test.go") {
			continue
		}
		f, err := parser.ParseFile(w.fset, filepath.Join(dir, n), nil, parser.ParseComments)
		if err != nil {
			return nil, err
		}
		// honour build constraints crudely: skip files guarded by a tag other than verif
		skip := false
		for _, cg := range f.Comments {
			if cg.Pos() > f.Package {
				break
			}
			for _, c := range cg.List {
				if strings.HasPrefix(c.Text, "//go:build") && !strings.Contains(c.Text, "verif") {
					skip = true
				}
			}
		}
		if skip {
			continue
		}
		pi.files = append(pi.files, f)
	}
	pi.info = &types.Info{Types: map[ast.Expr]types.TypeAndValue{}, Defs: map[*ast.Ident]types.Object{},
		Uses: map[*ast.Ident]types.Object{}, Selections: map[*ast.SelectorExpr]*types.Selection{},
		Instances: map[*ast.Ident]types.Instance{}}
	w.pkgs[path] = pi // break cycles (none expected)
	conf := types.Config{Importer: w, Error: func(err error) {}}
	pkg, _ := conf.Check(path, w.fset, pi.files, pi.info)
	pi.pkg = pkg
	return pi, nil
}

// ---------- helpers on types ----------

func deref(t types.Type) types.Type {
	if p, ok := t.Underlying().(*types.Pointer); ok {
		return p.Elem()
	}
	return t
}

func namedOrigin(t types.Type) *types.TypeName {
	t = deref(t)
	if n, ok := t.(*types.Named); ok {
		return n.Origin().Obj()
	}
	return nil
}

func isRWMutex(t types.Type) bool {
	tn := namedOrigin(t)
	return tn != nil && tn.Pkg() != nil && tn.Pkg().Path() == "sync" && (tn.Name() == "RWMutex" || tn.Name() == "Mutex")
}

// refLike: values of this type can alias shared memory
func refLike(t types.Type) bool {
	if _, ok := t.(*types.TypeParam); ok {
		// an element / key / value of the client's type: the container copies it and never writes
		// through it (this test must come first: the underlying type of a type parameter is its
		// constraint interface)
		return false
	}
	switch u := t.Underlying().(type) {
	case *types.Pointer, *types.Slice, *types.Map, *types.Chan, *types.Interface, *types.Signature:
		return true
	case *types.Struct:
		for i := 0; i < u.NumFields(); i++ {
			if refLike(u.Field(i).Type()) {
				return true
			}
		}
		return false
	case *types.Array:
		return refLike(u.Elem())
	}
	return false
}

func originVar(v *types.Var) *types.Var { return v.Origin() }

// gtypeOf returns the guarded type an expression of type t is an instance of
// (directly, via pointer, or via an embedded pointer as in cache.Cache).
func (w *world) gtypeOf(t types.Type) *gtype {
	tn := namedOrigin(t)
	if tn == nil {
		return nil
	}
	if g, ok := w.guarded[tn]; ok {
		return g
	}
	if st, ok := tn.Type().Underlying().(*types.Struct); ok {
		for i := 0; i < st.NumFields(); i++ {
			f := st.Field(i)
			if f.Embedded() {
				if g := w.gtypeOf(f.Type()); g != nil {
					return g
				}
			}
		}
	}
	return nil
}

func (g *gtype) loc(f *types.Var) int {
	f = originVar(f)
	for i, x := range g.fields {
		if x == f {
			return i
		}
	}
	return -1
}

// ---------- origins: where a value may point into ----------

// origin: the value derives from parameter `param` (-1 receiver) of the current
// function, and, when that parameter is a guarded instance, from its field `field`.
type origin struct {
	param int
	field *types.Var // guarded field (origin var) or nil
}

type oset map[origin]bool

func (a oset) add(b oset) {
	for k := range b {
		a[k] = true
	}
}

type effect struct {
	o     origin
	write bool
}

type summary struct {
	effs    map[effect]bool
	ext     bool
	fresh   bool // every returned reference is fresh (new/&T{}/make) — used for locals
	escapes map[origin]bool
	// parameters (-1 = receiver) whose own value (a reference) may be returned as such
	retParams map[int]bool
	// the same two, per result position of a multi-value return (nil when never recorded)
	perResult map[int]*summary
}

type callRec struct {
	callee *types.Func
	param  int
	fresh  bool
}

// ---------- the per-function walker ----------

type ctx struct {
	w      *world
	fd     *funcDecl
	params map[*types.Var]int // param object -> index (-1 receiver)
	inst   map[int]*gtype     // params that are guarded instances
	locals map[*types.Var]oset
	// function-typed parameters bound to a closure of the caller (index -> term of the closure body,
	// produced in the CALLER's context): q.withLock(func() { ... })
	fnArgs map[int]func() string
	// parameters of type *sync.RWMutex that the caller bound to the mutex of its guarded instance
	// (withLock(&q.mu, f), defer locked(&q.mu)()): lock operations on them are the instance's
	muArgs map[int]int // 1: the mutex itself (*sync.RWMutex or sync.Locker), 2: its read view (RLocker())
	// locals holding q.mu.RLocker(): Lock/Unlock on them are RLock/RUnlock
	rlockers map[*types.Var]bool
	// the function value the last inlined callee returned (an unlock closure), as a term; and locals
	// such values were assigned to
	lastRetFunc string
	funcVals    map[*types.Var]string
	// refineWritten: for every assignment `v.f = ...` walked, is v an object nobody else can see yet
	// (0 no, 1 yes, 2+i: v is parameter i — depends on the callers); and for every call of a module
	// function, which arguments are such objects
	siteLog map[ast.Expr]int
	callLog *[]callRec
	// the statement being translated is a direct child of the function body (runs unconditionally)
	topLevel bool
	// a, b := f(): while the i-th left-hand side is assigned, the i-th result of f is meant (-1: any)
	wantResult int
	// structural translation state (only for locking functions)
	structural bool
	defers     []string // Coq terms of deferred actions, in push order
	depth      int
	// flat collection
	effs map[effect]bool
	ext  bool
	// goroutine skeletons spawned
	spawned *[]namedSk
	instOf  func(e ast.Expr) bool
}

type namedSk struct {
	name string
	term string
}

func (c *ctx) info() *types.Info { return c.fd.pi.info }

func (c *ctx) typeOf(e ast.Expr) types.Type {
	if tv, ok := c.info().Types[e]; ok && tv.Type != nil {
		return tv.Type
	}
	if id, ok := e.(*ast.Ident); ok {
		if o := c.info().ObjectOf(id); o != nil {
			return o.Type()
		}
	}
	return types.Typ[types.Invalid]
}

// origins of the memory an expression's value may point into
func (c *ctx) origins(e ast.Expr) oset {
	res := oset{}
	if e == nil {
		return res
	}
	t := c.typeOf(e)
	// `v, ok := m[k]` / `v, ok := x.(T)`: the recorded type is the pair (T, bool)
	if tup, ok := t.(*types.Tuple); ok && tup.Len() == 2 {
		switch e.(type) {
		case *ast.IndexExpr, *ast.TypeAssertExpr:
			t = tup.At(0).Type()
		}
	}
	switch x := e.(type) {
	case *ast.ParenExpr:
		return c.origins(x.X)
	case *ast.Ident:
		if v, ok := c.info().ObjectOf(x).(*types.Var); ok {
			if p, ok := c.params[v]; ok {
				if refLike(v.Type()) {
					res[origin{param: p}] = true
				}
			} else if os, ok := c.locals[v]; ok {
				res.add(os)
			}
		}
	case *ast.SelectorExpr:
		if sel, ok := c.info().Selections[x]; ok && sel.Kind() == types.FieldVal {
			base := c.origins(x.X)
			f := originVar(sel.Obj().(*types.Var))
			if !refLike(t) {
				return res
			}
			for o := range base {
				if g, ok := c.inst[o.param]; ok && o.field == nil && g.loc(f) >= 0 {
					res[origin{param: o.param, field: f}] = true
				} else {
					res[o] = true
				}
			}
		}
	case *ast.IndexExpr:
		if refLike(t) {
			res.add(c.origins(x.X))
		}
	case *ast.SliceExpr:
		res.add(c.origins(x.X))
	case *ast.StarExpr:
		if refLike(t) {
			res.add(c.origins(x.X))
		}
	case *ast.UnaryExpr:
		if x.Op == token.AND {
			res.add(c.addrOrigins(x.X))
		}
	case *ast.CallExpr:
		if !refLike(t) && !isTuple(t) {
			return res
		}
		if c.isConversion(x) {
			if len(x.Args) == 1 {
				res.add(c.origins(x.Args[0]))
			}
			return res
		}
		if id, ok := x.Fun.(*ast.Ident); ok {
			if _, isB := c.info().ObjectOf(id).(*types.Builtin); isB {
				switch id.Name {
				case "append":
					for i, a := range x.Args {
						if i > 0 {
							// elements are copied into the result: only reference-like ones alias anything
							et := c.typeOf(a)
							if x.Ellipsis.IsValid() && i == len(x.Args)-1 && et != nil {
								if sl, ok := et.Underlying().(*types.Slice); ok {
									et = sl.Elem()
								}
							}
							if et != nil && !refLike(et) {
								continue
							}
						}
						res.add(c.origins(a))
					}
				case "new", "make":
				}
				return res
			}
		}
		callee := c.calleeOf(x)
		if callee != nil {
			if s := c.w.summ[callee]; s != nil && s.fresh {
				return res
			}
		}
		if callee != nil {
			if sm := c.w.summ[callee]; sm != nil {
				if c.wantResult >= 0 && sm.perResult != nil {
					if pr := sm.perResult[c.wantResult]; pr != nil {
						sm = pr
					} else {
						return res // this result position never carries a reference into a parameter
					}
				}
				// the callee's own return statements say what its result may point into: parameters
				// handed back as such (retParams) and fields of parameters (escapes)
				actual := func(p int) oset {
					out := oset{}
					if p == -1 {
						if se, ok := x.Fun.(*ast.SelectorExpr); ok {
							if _, isSel := c.info().Selections[se]; isSel {
								out.add(c.addrOrigins(se.X))
								out.add(c.origins(se.X))
							}
						}
						return out
					}
					if p >= 0 && p < len(x.Args) {
						out.add(c.origins(x.Args[p]))
					} else if p >= len(x.Args) && len(x.Args) > 0 {
						out.add(c.origins(x.Args[len(x.Args)-1])) // variadic tail
					}
					return out
				}
				for p := range sm.retParams {
					res.add(actual(p))
				}
				for eo := range sm.escapes {
					for ao := range actual(eo.param) {
						if g, ok := c.inst[ao.param]; ok && ao.field == nil && g.loc(eo.field) >= 0 {
							res[origin{param: ao.param, field: eo.field}] = true
						} else {
							res[ao] = true
						}
					}
				}
				return res
			}
		}
		// conservative: may return anything reachable from its reference-like arguments
		if se, ok := x.Fun.(*ast.SelectorExpr); ok {
			if _, isSel := c.info().Selections[se]; isSel {
				res.add(c.addrOrigins(se.X))
			}
		}
		for _, a := range x.Args {
			res.add(c.origins(a))
		}
	case *ast.CompositeLit, *ast.FuncLit, *ast.BasicLit:
	case *ast.TypeAssertExpr:
		res.add(c.origins(x.X))
	case *ast.BinaryExpr:
	}
	return res
}

func isTuple(t types.Type) bool { _, ok := t.(*types.Tuple); return ok }

// origins of the memory in which the l-value e lives (for &e and for writes)
func (c *ctx) addrOrigins(e ast.Expr) oset {
	res := oset{}
	switch x := e.(type) {
	case *ast.ParenExpr:
		return c.addrOrigins(x.X)
	case *ast.Ident:
		if v, ok := c.info().ObjectOf(x).(*types.Var); ok {
			if p, ok := c.params[v]; ok {
				// a pointer-typed parameter designates shared memory; a value parameter is a local copy
				if _, isPtr := v.Type().Underlying().(*types.Pointer); isPtr {
					res[origin{param: p}] = true
				}
			} else if os, ok := c.locals[v]; ok {
				if _, isPtr := v.Type().Underlying().(*types.Pointer); isPtr {
					res.add(os)
				}
			}
		}
	case *ast.SelectorExpr:
		if sel, ok := c.info().Selections[x]; ok && sel.Kind() == types.FieldVal {
			f := originVar(sel.Obj().(*types.Var))
			var base oset
			// x.X may be a pointer (implicit deref) or an addressable struct
			if _, isPtr := c.typeOf(x.X).Underlying().(*types.Pointer); isPtr {
				base = c.origins(x.X)
			} else {
				base = c.addrOrigins(x.X)
			}
			// selections through embedded pointers (c.items with c *Cache embedding *cache)
			if len(sel.Index()) > 1 {
				base = c.origins(x.X)
				if len(base) == 0 {
					base = c.addrOrigins(x.X)
				}
			}
			for o := range base {
				if g, ok := c.inst[o.param]; ok && o.field == nil && g.loc(f) >= 0 {
					res[origin{param: o.param, field: f}] = true
				} else {
					res[o] = true
				}
			}
		}
	case *ast.IndexExpr:
		tx := c.typeOf(x.X).Underlying()
		switch tx.(type) {
		case *types.Slice, *types.Map, *types.Pointer:
			res.add(c.origins(x.X))
		default: // array value: lives where the array lives
			res.add(c.addrOrigins(x.X))
		}
	case *ast.StarExpr:
		res.add(c.origins(x.X))
	case *ast.SliceExpr:
		res.add(c.origins(x.X))
	}
	return res
}

func (c *ctx) isConversion(call *ast.CallExpr) bool {
	tv, ok := c.info().Types[call.Fun]
	return ok && tv.IsType()
}

func (c *ctx) calleeOf(call *ast.CallExpr) *types.Func {
	var id *ast.Ident
	switch f := call.Fun.(type) {
	case *ast.Ident:
		id = f
	case *ast.SelectorExpr:
		id = f.Sel
	case *ast.IndexExpr: // explicit instantiation f[T](...)
		switch g := f.X.(type) {
		case *ast.Ident:
			id = g
		case *ast.SelectorExpr:
			id = g.Sel
		}
	case *ast.IndexListExpr:
		switch g := f.X.(type) {
		case *ast.Ident:
			id = g
		case *ast.SelectorExpr:
			id = g.Sel
		}
	}
	if id == nil {
		return nil
	}
	if fn, ok := c.info().ObjectOf(id).(*types.Func); ok {
		return fn.Origin()
	}
	return nil
}

// ---------- emission ----------

type em struct {
	parts []string
}

func seq(parts []string) string {
	var ps []string
	for _, p := range parts {
		if p != "" && p != "SSkip" {
			ps = append(ps, p)
		}
	}
	if len(ps) == 0 {
		return "SSkip"
	}
	out := ps[len(ps)-1]
	for i := len(ps) - 2; i >= 0; i-- {
		out = "(SSeq " + ps[i] + " " + out + ")"
	}
	return out
}

func act(a string) string { return "(SAct " + a + ")" }

func (c *ctx) accessTerm(o origin, write bool) string {
	if g, ok := c.inst[o.param]; ok {
		if o.field == nil {
			// the instance struct itself (e.g. *h = ...): touches everything; use location 0
			if write {
				return act("(AWr 0)")
			}
			return act("(ARd 0)")
		}
		if !write && !c.w.written[o.field] {
			return "" // immutable field
		}
		l := g.loc(o.field)
		if write {
			return act(fmt.Sprintf("(AWr %d)", l))
		}
		return act(fmt.Sprintf("(ARd %d)", l))
	}
	return ""
}

// record an access (flat) and return its structural term
func (c *ctx) access(os oset, write bool) string {
	var parts []string
	keys := sortedOrigins(os)
	for _, o := range keys {
		if o.field != nil && !write && !c.w.written[o.field] {
			continue
		}
		c.effs[effect{o, write}] = true
		if t := c.accessTerm(o, write); t != "" {
			parts = append(parts, t)
		}
	}
	return seq(parts)
}

func sortedOrigins(os oset) []origin {
	var ks []origin
	for o := range os {
		ks = append(ks, o)
	}
	sort.Slice(ks, func(i, j int) bool {
		if ks[i].param != ks[j].param {
			return ks[i].param < ks[j].param
		}
		ni, nj := "", ""
		if ks[i].field != nil {
			ni = ks[i].field.Name()
		}
		if ks[j].field != nil {
			nj = ks[j].field.Name()
		}
		return ni < nj
	})
	return ks
}

// expr: effects of evaluating e (reads), as a skeleton term
func (c *ctx) expr(e ast.Expr) string {
	if e == nil {
		return "SSkip"
	}
	switch x := e.(type) {
	case *ast.ParenExpr:
		return c.expr(x.X)
	case *ast.Ident, *ast.BasicLit:
		return "SSkip"
	case *ast.FuncLit:
		// a closure: analysed where it is called; if it is only passed along it runs as AExt there.
		return "SSkip"
	case *ast.SelectorExpr:
		if sel, ok := c.info().Selections[x]; ok && sel.Kind() == types.FieldVal {
			f := originVar(sel.Obj().(*types.Var))
			pre := c.expr(x.X)
			if !c.w.written[f] {
				return pre // never-written field: reading it is not an access
			}
			return seq([]string{pre, c.access(c.addrOrigins(x), false)})
		}
		return c.expr(x.X)
	case *ast.IndexExpr:
		if c.isGenericInst(x) {
			return "SSkip"
		}
		return seq([]string{c.expr(x.X), c.expr(x.Index), c.access(c.addrOrigins(x), false)})
	case *ast.IndexListExpr:
		return "SSkip"
	case *ast.SliceExpr:
		return seq([]string{c.expr(x.X), c.expr(x.Low), c.expr(x.High), c.expr(x.Max)})
	case *ast.StarExpr:
		return seq([]string{c.expr(x.X), c.access(c.origins(x.X), false)})
	case *ast.UnaryExpr:
		if x.Op == token.AND {
			// taking an address is not an access, but evaluate sub-expressions
			return c.lvalueSub(x.X)
		}
		if x.Op == token.ARROW {
			return seq([]string{c.expr(x.X), act("AExt")})
		}
		return c.expr(x.X)
	case *ast.BinaryExpr:
		return seq([]string{c.expr(x.X), c.expr(x.Y)})
	case *ast.KeyValueExpr:
		return seq([]string{c.expr(x.Key), c.expr(x.Value)})
	case *ast.CompositeLit:
		var ps []string
		for _, el := range x.Elts {
			ps = append(ps, c.expr(el))
		}
		return seq(ps)
	case *ast.TypeAssertExpr:
		return c.expr(x.X)
	case *ast.CallExpr:
		return c.call(x)
	}
	return "SSkip"
}

func (c *ctx) isGenericInst(x *ast.IndexExpr) bool {
	tv, ok := c.info().Types[x.Index]
	return ok && tv.IsType()
}

// sub-expressions of an l-value (indices, bases) evaluated as reads
func (c *ctx) lvalueSub(e ast.Expr) string {
	switch x := e.(type) {
	case *ast.ParenExpr:
		return c.lvalueSub(x.X)
	case *ast.SelectorExpr:
		if _, isPtr := c.typeOf(x.X).Underlying().(*types.Pointer); isPtr {
			return c.expr(x.X)
		}
		return c.lvalueSub(x.X)
	case *ast.IndexExpr:
		return seq([]string{c.expr(x.X), c.expr(x.Index)})
	case *ast.StarExpr:
		return c.expr(x.X)
	}
	return "SSkip"
}

// lock operation on the instance's mutex?  returns the action name or ""
func (c *ctx) lockOp(call *ast.CallExpr) string {
	se, ok := call.Fun.(*ast.SelectorExpr)
	if !ok {
		return ""
	}
	name := se.Sel.Name
	if name != "Lock" && name != "Unlock" && name != "RLock" && name != "RUnlock" {
		return ""
	}
	if id, isId := ast.Unparen(se.X).(*ast.Ident); isId {
		if v, isVar := c.info().ObjectOf(id).(*types.Var); isVar {
			if (name == "Lock" || name == "Unlock") && c.rlockers[v] {
				return "AR" + name // l := q.mu.RLocker(); l.Lock()
			}
			// a parameter (of type *sync.RWMutex or sync.Locker) the caller bound to the instance mutex
			if pi, isParam := c.params[v]; isParam {
				switch c.muArgs[pi] {
				case 1:
					return "A" + name
				case 2:
					if name == "Lock" || name == "Unlock" {
						return "AR" + name
					}
				}
			}
		}
	}
	if !isRWMutex(c.typeOf(se.X)) {
		return ""
	}
	// se.X must be <instance>.mu ...
	inner, ok := se.X.(*ast.SelectorExpr)
	if !ok {
		// ... or a local alias of it: mu := &q.mu; mu.Lock()
		if id, isId := ast.Unparen(se.X).(*ast.Ident); isId {
			if v, isVar := c.info().ObjectOf(id).(*types.Var); isVar {
				if _, isParam := c.params[v]; !isParam {
					for o := range c.locals[v] {
						if _, ok := c.inst[o.param]; ok {
							return "A" + name
						}
					}
				}
			}
		}
		return ""
	}
	os := c.origins(inner.X)
	if len(os) == 0 {
		os = c.addrOrigins(inner.X)
	}
	for o := range os {
		if _, ok := c.inst[o.param]; ok && o.field == nil {
			return "A" + name
		}
	}
	return ""
}

func (c *ctx) call(call *ast.CallExpr) string {
	if op := c.lockOp(call); op != "" {
		return act(op)
	}
	if se, ok := call.Fun.(*ast.SelectorExpr); ok && isRWMutex(c.typeOf(se.X)) {
		if se.Sel.Name == "RLocker" {
			return "SSkip" // a view of the mutex, no access to guarded data
		}
	}
	var ps []string
	if c.isConversion(call) {
		for _, a := range call.Args {
			ps = append(ps, c.expr(a))
		}
		return seq(ps)
	}
	// builtins
	if id, ok := call.Fun.(*ast.Ident); ok {
		if _, isB := c.info().ObjectOf(id).(*types.Builtin); isB {
			for _, a := range call.Args {
				ps = append(ps, c.expr(a))
			}
			switch id.Name {
			case "len", "cap":
				ps = append(ps, c.access(c.origins(call.Args[0]), false))
			case "append":
				ps = append(ps, c.access(c.origins(call.Args[0]), false))
				for _, a := range call.Args[1:] {
					if call.Ellipsis.IsValid() {
						ps = append(ps, c.access(c.origins(a), false))
					}
				}
			case "copy":
				ps = append(ps, c.access(c.origins(call.Args[1]), false), c.access(c.origins(call.Args[0]), true))
			case "delete":
				ps = append(ps, c.access(c.origins(call.Args[0]), true))
			case "close":
				ps = append(ps, act("AExt"))
			}
			return seq(ps)
		}
	}
	// receiver expression and arguments are evaluated first
	var recvExpr ast.Expr
	if se, ok := call.Fun.(*ast.SelectorExpr); ok {
		if sel, isSel := c.info().Selections[se]; isSel && (sel.Kind() == types.MethodVal) {
			recvExpr = se.X
			ps = append(ps, c.expr(se.X))
		}
	}
	for _, a := range call.Args {
		ps = append(ps, c.expr(a))
	}
	callee := c.calleeOf(call)
	// immediately-invoked closure
	if fl, ok := call.Fun.(*ast.FuncLit); ok {
		ps = append(ps, "(SCall "+c.closureBody(fl)+")")
		return seq(ps)
	}
	// call of a local closure variable whose literal we know
	if id, ok := call.Fun.(*ast.Ident); ok && callee == nil {
		if v, ok := c.info().ObjectOf(id).(*types.Var); ok {
			if t, ok := c.funcVals[v]; ok {
				ps = append(ps, "(SCall "+t+")")
				return seq(ps)
			}
			if pi, isParam := c.params[v]; isParam && c.fnArgs != nil && c.fnArgs[pi] != nil {
				ps = append(ps, "(SCall "+c.fnArgs[pi]()+")")
				return seq(ps)
			}
			if fl := c.closureOf(v); fl != nil {
				ps = append(ps, "(SCall "+c.closureBody(fl)+")")
				return seq(ps)
			}
		}
	}
	fdc := c.w.funcs[callee]
	if callee == nil || fdc == nil {
		// function value, interface method, or a function outside the module
		if callee != nil && callee.Pkg() != nil && !strings.HasPrefix(callee.Pkg().Path(), modPath) {
			if rv := callee.Type().(*types.Signature).Recv(); rv != nil && types.IsInterface(rv.Type()) {
				c.ext = true
				ps = append(ps, act("AExt"))
			}
			return seq(ps) // standard library: assumed not to touch guarded state
		}
		c.ext = true
		ps = append(ps, act("AExt"))
		return seq(ps)
	}
	if c.callLog != nil {
		csig := callee.Type().(*types.Signature)
		for i, a := range call.Args {
			pi := i
			if pi >= csig.Params().Len() {
				pi = csig.Params().Len() - 1
			}
			fresh := false
			switch x := ast.Unparen(a).(type) {
			case *ast.Ident:
				if v, ok := c.info().ObjectOf(x).(*types.Var); ok {
					if _, isParam := c.params[v]; !isParam {
						os, tracked := c.locals[v]
						fresh = tracked && len(os) == 0
					}
				}
			case *ast.UnaryExpr:
				if _, isLit := x.X.(*ast.CompositeLit); isLit && x.Op == token.AND {
					fresh = true
				}
			case *ast.CallExpr:
				fresh = len(c.origins(x)) == 0
			}
			*c.callLog = append(*c.callLog, callRec{callee, pi, fresh})
		}
	}
	// module callee: bind actuals to its parameters
	actual := map[int]oset{}
	sig := callee.Type().(*types.Signature)
	if recvExpr != nil {
		os := c.origins(recvExpr)
		if len(os) == 0 {
			os = c.addrOrigins(recvExpr)
		}
		actual[-1] = os
	}
	for i, a := range call.Args {
		pi := i
		if pi >= sig.Params().Len() {
			pi = sig.Params().Len() - 1
		}
		if actual[pi] == nil {
			actual[pi] = oset{}
		}
		actual[pi].add(c.origins(a))
	}
	c.lastRetFunc = ""
	if mu := c.mutexArgs(call, sig); len(mu) > 0 && c.depth < 6 {
		// withLock(&q.mu, func() { ... }), locked(&q.mu): the callee works on OUR mutex
		sub := c.w.newCtx(fdc)
		sub.depth = c.depth + 1
		sub.structural = true
		sub.spawned = c.spawned
		sub.muArgs = mu
		sub.fnArgs = c.closureArgs(call, sig)
		body := sub.function()
		for e := range sub.effs {
			c.mapEffect(e, actual, nil)
		}
		if sub.ext {
			c.ext = true
		}
		c.lastRetFunc = sub.returnedFunc()
		ps = append(ps, "(SCall (* "+callee.Name()+" *) "+body+")")
		return seq(ps)
	}
	if c.w.locking[callee] {
		// a locking callee: inline structurally if it is invoked on our instance, else it is
		// another instance with its own mutex: AExt
		onInstance := false
		for o := range actual[-1] {
			if _, ok := c.inst[o.param]; ok && o.field == nil {
				onInstance = true
			}
		}
		if onInstance && c.depth < 6 {
			sub := c.w.newCtx(fdc)
			sub.depth = c.depth + 1
			sub.structural = true
			sub.spawned = c.spawned
			sub.fnArgs = c.closureArgs(call, sig)
			body := sub.function()
			// effects of the callee seen from here
			for e := range sub.effs {
				c.mapEffect(e, actual, nil)
			}
			if sub.ext {
				c.ext = true
			}
			ps = append(ps, "(SCall (* "+callee.Name()+" *) "+body+")")
			return seq(ps)
		}
		c.ext = true
		ps = append(ps, act("AExt"))
		return seq(ps)
	}
	s := c.w.summ[callee]
	if s == nil {
		c.ext = true
		ps = append(ps, act("AExt"))
		return seq(ps)
	}
	var terms []string
	var effs []effect
	for e := range s.effs {
		effs = append(effs, e)
	}
	sort.Slice(effs, func(i, j int) bool {
		a, b := effs[i], effs[j]
		if a.o.param != b.o.param {
			return a.o.param < b.o.param
		}
		if a.write != b.write {
			return !a.write
		}
		return fieldName(a.o.field) < fieldName(b.o.field)
	})
	for _, e := range effs {
		c.mapEffect(e, actual, &terms)
	}
	if s.ext {
		c.ext = true
		terms = append(terms, act("AExt"))
	}
	for _, th := range c.closureArgs(call, sig) {
		terms = append(terms, "(SCall "+th()+")")
	}
	if len(terms) > 0 {
		// any number of these effects, in any order
		choice := terms[len(terms)-1]
		for i := len(terms) - 2; i >= 0; i-- {
			choice = "(SIf " + terms[i] + " " + choice + ")"
		}
		ps = append(ps, "(SLoop "+choice+")")
	}
	return seq(ps)
}

func fieldName(f *types.Var) string {
	if f == nil {
		return ""
	}
	return f.Name()
}

// translate a callee effect into effects of the caller
func (c *ctx) mapEffect(e effect, actual map[int]oset, terms *[]string) {
	for o := range actual[e.o.param] {
		no := o
		if e.o.field != nil {
			// the callee accessed field f of a guarded-instance parameter
			if _, ok := c.inst[o.param]; ok && o.field == nil {
				no = origin{param: o.param, field: e.o.field}
			}
		}
		if no.field != nil && !e.write && !c.w.written[no.field] {
			continue
		}
		c.effs[effect{no, e.write}] = true
		if terms != nil {
			if t := c.accessTerm(no, e.write); t != "" {
				*terms = append(*terms, t)
			}
		}
	}
}

// closureBody translates a function literal's body with its own defer stack
func (c *ctx) closureBody(fl *ast.FuncLit) string {
	saved := c.defers
	c.defers = nil
	body := c.block(fl.Body.List)
	body = seq([]string{body, c.deferredTerm()})
	c.defers = saved
	return body
}

// isInstanceMutex: e designates the mutex of a guarded instance of this function (q.mu, or a parameter
// the caller bound to it)
func (c *ctx) isInstanceMutex(e ast.Expr) bool {
	e = ast.Unparen(e)
	if u, ok := e.(*ast.UnaryExpr); ok && u.Op == token.AND {
		e = ast.Unparen(u.X)
	}
	switch x := e.(type) {
	case *ast.SelectorExpr:
		os := c.origins(x.X)
		if len(os) == 0 {
			os = c.addrOrigins(x.X)
		}
		for o := range os {
			if _, ok := c.inst[o.param]; ok && o.field == nil {
				return true
			}
		}
	case *ast.Ident:
		if v, ok := c.info().ObjectOf(x).(*types.Var); ok {
			if pi, isParam := c.params[v]; isParam {
				return c.muArgs[pi] == 1
			}
			for o := range c.locals[v] {
				if _, ok := c.inst[o.param]; ok {
					return true
				}
			}
		}
	}
	return false
}

// mutexArgs: parameter positions of call that receive the mutex of our guarded instance
func (c *ctx) mutexArgs(call *ast.CallExpr, sig *types.Signature) map[int]int {
	var out map[int]int
	for i, a := range call.Args {
		mode := 0
		t := c.typeOf(a)
		if t != nil && isRWMutex(t) {
			if _, isPtr := t.Underlying().(*types.Pointer); isPtr && c.isInstanceMutex(a) {
				mode = 1 // &q.mu, or a bound parameter handed on
			}
		}
		switch x := ast.Unparen(a).(type) {
		case *ast.CallExpr:
			// q.mu.RLocker()
			if se, ok := x.Fun.(*ast.SelectorExpr); ok && se.Sel.Name == "RLocker" && isRWMutex(c.typeOf(se.X)) && c.isInstanceMutex(se.X) {
				mode = 2
			}
		case *ast.Ident:
			if v, ok := c.info().ObjectOf(x).(*types.Var); ok {
				if c.rlockers[v] {
					mode = 2
				} else if pi, isParam := c.params[v]; isParam && c.muArgs[pi] != 0 {
					mode = c.muArgs[pi]
				}
			}
		}
		if mode == 0 {
			continue
		}
		if out == nil {
			out = map[int]int{}
		}
		idx := i
		if idx >= sig.Params().Len() {
			idx = sig.Params().Len() - 1
		}
		out[idx] = mode
	}
	return out
}

// returnedFunc: if every return statement of the function just walked returns one function value that
// is an unlock on a bound mutex (a method value mu.Unlock, or a literal), its term; "" otherwise
func (c *ctx) returnedFunc() string {
	term, n := "", 0
	ast.Inspect(c.fd.decl.Body, func(nd ast.Node) bool {
		switch x := nd.(type) {
		case *ast.FuncLit:
			return false
		case *ast.ReturnStmt:
			n++
			if len(x.Results) != 1 {
				term = ""
				return true
			}
			switch r := ast.Unparen(x.Results[0]).(type) {
			case *ast.FuncLit:
				term = c.closureBody(r)
			case *ast.SelectorExpr:
				// method value mu.Unlock
				if op := c.lockOp(&ast.CallExpr{Fun: r}); op != "" {
					term = act(op)
				}
			}
		}
		return true
	})
	if n != 1 {
		return ""
	}
	return term
}

// closureArgs: the arguments of call that are closures of this function (a literal, or a local variable
// holding one), by parameter index; each as a thunk that translates the closure body in THIS context.
func (c *ctx) closureArgs(call *ast.CallExpr, sig *types.Signature) map[int]func() string {
	var out map[int]func() string
	for i, a := range call.Args {
		var fl *ast.FuncLit
		switch x := ast.Unparen(a).(type) {
		case *ast.FuncLit:
			fl = x
		case *ast.Ident:
			if v, ok := c.info().ObjectOf(x).(*types.Var); ok {
				if _, isParam := c.params[v]; !isParam {
					fl = c.closureOf(v)
				} else if pi := c.params[v]; c.fnArgs != nil && c.fnArgs[pi] != nil {
					// a bound parameter handed on
					if out == nil {
						out = map[int]func() string{}
					}
					idx := i
					if idx >= sig.Params().Len() {
						idx = sig.Params().Len() - 1
					}
					out[idx] = c.fnArgs[pi]
					continue
				}
			}
		}
		if fl == nil {
			continue
		}
		if out == nil {
			out = map[int]func() string{}
		}
		idx := i
		if idx >= sig.Params().Len() {
			idx = sig.Params().Len() - 1
		}
		lit := fl
		out[idx] = func() string { return c.closureBody(lit) }
	}
	return out
}

func (c *ctx) closureOf(v *types.Var) *ast.FuncLit {
	var found *ast.FuncLit
	ast.Inspect(c.fd.decl, func(n ast.Node) bool {
		as, ok := n.(*ast.AssignStmt)
		if !ok {
			return true
		}
		for i, l := range as.Lhs {
			if id, ok := l.(*ast.Ident); ok && c.info().ObjectOf(id) == v && i < len(as.Rhs) {
				if fl, ok := as.Rhs[i].(*ast.FuncLit); ok {
					found = fl
				}
			}
		}
		return true
	})
	return found
}

// ---------- statements ----------

func (c *ctx) deferredTerm() string {
	var ps []string
	for i := len(c.defers) - 1; i >= 0; i-- {
		ps = append(ps, c.defers[i])
	}
	return seq(ps)
}

func (c *ctx) assignTo(lhs ast.Expr, rhs ast.Expr, define bool) string {
	// returns the term for the write to lhs (sub-expressions included)
	if id, ok := lhs.(*ast.Ident); ok {
		if id.Name == "_" {
			return "SSkip"
		}
		if v, ok := c.info().ObjectOf(id).(*types.Var); ok {
			if _, isParam := c.params[v]; !isParam {
				if v.Parent() != nil && v.Pkg() != nil && v.Parent() == v.Pkg().Scope() {
					return "SSkip" // package-level variable: not guarded state
				}
				// local variable: track what it may point into
				if rhs != nil {
					if call, ok := ast.Unparen(rhs).(*ast.CallExpr); ok {
						if se, ok := call.Fun.(*ast.SelectorExpr); ok && se.Sel.Name == "RLocker" && isRWMutex(c.typeOf(se.X)) && c.isInstanceMutex(se.X) {
							if c.rlockers == nil {
								c.rlockers = map[*types.Var]bool{}
							}
							c.rlockers[v] = true
						}
						if c.lastRetFunc != "" {
							if c.funcVals == nil {
								c.funcVals = map[*types.Var]string{}
							}
							c.funcVals[v] = c.lastRetFunc
							c.lastRetFunc = ""
						}
					}
					os := oset{}
					if refLike(v.Type()) {
						os.add(c.origins(rhs))
					}
					if old, ok := c.locals[v]; ok && !define {
						os.add(old)
					}
					c.locals[v] = os
				}
				return "SSkip"
			}
			// assignment to a parameter variable itself is local
			return "SSkip"
		}
		return "SSkip"
	}
	ao := c.addrOrigins(lhs)
	if c.siteLog != nil {
		if se, ok := ast.Unparen(lhs).(*ast.SelectorExpr); ok {
			if id, ok := ast.Unparen(se.X).(*ast.Ident); ok {
				if v, ok := c.info().ObjectOf(id).(*types.Var); ok {
					if pi, isParam := c.params[v]; isParam {
						if _, isInst := c.inst[pi]; !isInst && pi >= 0 {
							c.siteLog[lhs] = 2 + pi
						} else {
							c.siteLog[lhs] = 0
						}
					} else if os, tracked := c.locals[v]; tracked && len(os) == 0 && v.Parent() != nil && v.Pkg() != nil && v.Parent() != v.Pkg().Scope() {
						c.siteLog[lhs] = 1
					} else {
						c.siteLog[lhs] = 0
					}
				}
			}
		}
	}
	if rhs != nil && c.topLevel {
		c.transfer(ao, rhs)
	}
	return seq([]string{c.lvalueSub(lhs), c.access(ao, true)})
}

// transfer: ownership idioms around an unconditional (top-level) assignment `inst.f = rhs`.
//   d := h.data; h.data = nil      the array d points to is no longer reachable from h: d is private
//                                  from here on (another thread can only hold a reference that escaped
//                                  earlier, and every escape is reported on its own)
//   h.data = d                     the memory d points to is guarded data from here on
func (c *ctx) transfer(ao oset, rhs ast.Expr) {
	if len(ao) != 1 {
		return
	}
	var target origin
	for o := range ao {
		target = o
	}
	g, ok := c.inst[target.param]
	if !ok || target.field == nil || g.loc(target.field) < 0 || !refLike(target.field.Type()) {
		return
	}
	ro := c.origins(rhs)
	if len(ro) == 0 {
		// detach
		for v, os := range c.locals {
			if os[target] {
				n := oset{}
				for o := range os {
					if o != target {
						n[o] = true
					}
				}
				c.locals[v] = n
			}
		}
		return
	}
	// attach the local the right-hand side is built from
	e := ast.Unparen(rhs)
	for {
		switch x := e.(type) {
		case *ast.SliceExpr:
			e = ast.Unparen(x.X)
			continue
		case *ast.CallExpr:
			if id, ok := x.Fun.(*ast.Ident); ok && id.Name == "append" && len(x.Args) > 0 {
				e = ast.Unparen(x.Args[0])
				continue
			}
		}
		break
	}
	if id, ok := e.(*ast.Ident); ok {
		if v, ok := c.info().ObjectOf(id).(*types.Var); ok {
			if _, isParam := c.params[v]; !isParam && refLike(v.Type()) {
				if c.locals[v] == nil {
					c.locals[v] = oset{}
				}
				c.locals[v][target] = true
			}
		}
	}
}

func (c *ctx) stmt(s ast.Stmt) string {
	switch x := s.(type) {
	case nil:
		return "SSkip"
	case *ast.ExprStmt:
		return c.expr(x.X)
	case *ast.AssignStmt:
		var ps []string
		c.topLevel = false
		if c.fd != nil && c.fd.decl.Body != nil {
			for _, ts := range c.fd.decl.Body.List {
				if ts == s {
					c.topLevel = true
				}
			}
		}
		defer func() { c.topLevel = false }()
		for _, r := range x.Rhs {
			ps = append(ps, c.expr(r))
		}
		if x.Tok != token.ASSIGN && x.Tok != token.DEFINE {
			// op-assignment reads the target first
			for _, l := range x.Lhs {
				ps = append(ps, c.expr(l))
			}
		}
		for i, l := range x.Lhs {
			var r ast.Expr
			if len(x.Rhs) == len(x.Lhs) {
				r = x.Rhs[i]
			} else if len(x.Rhs) == 1 {
				r = x.Rhs[0]
			}
			if len(x.Rhs) == 1 && len(x.Lhs) > 1 {
				c.wantResult = i
			}
			ps = append(ps, c.assignTo(l, r, x.Tok == token.DEFINE))
			c.wantResult = -1
		}
		return seq(ps)
	case *ast.IncDecStmt:
		return seq([]string{c.expr(x.X), c.assignTo(x.X, nil, false)})
	case *ast.DeclStmt:
		var ps []string
		if gd, ok := x.Decl.(*ast.GenDecl); ok {
			for _, sp := range gd.Specs {
				if vs, ok := sp.(*ast.ValueSpec); ok {
					for _, v := range vs.Values {
						ps = append(ps, c.expr(v))
					}
					for i, n := range vs.Names {
						var r ast.Expr
						if i < len(vs.Values) {
							r = vs.Values[i]
						}
						ps = append(ps, c.assignTo(n, r, true))
						if r == nil {
							if v, ok := c.info().ObjectOf(n).(*types.Var); ok {
								c.locals[v] = oset{}
							}
						}
					}
				}
			}
		}
		return seq(ps)
	case *ast.BlockStmt:
		return c.block(x.List)
	case *ast.IfStmt:
		pre := []string{c.stmt(x.Init), c.expr(x.Cond)}
		thn := c.block(x.Body.List)
		els := "SSkip"
		if x.Else != nil {
			els = c.stmt(x.Else)
		}
		return seq(append(pre, "(SIf "+thn+" "+els+")"))
	case *ast.ForStmt:
		if hasBranch(x.Body.List) {
			// break / continue: the body is split into the paths that complete an iteration (fall off
			// the end, or `continue`) and the paths that leave the loop (`break`)
			init := c.stmt(x.Init)
			cond := c.expr(x.Cond)
			p := c.flowBlock(x.Body.List)
			post := c.stmt(x.Post)
			loop := "SSkip"
			if iter, ok := alt(p.n, p.hn, p.c, p.hc); ok {
				loop = "(SLoop " + seq([]string{cond, iter, post}) + ")"
			}
			exit := cond
			if p.hb {
				exit = "(SIf " + seq([]string{cond, p.b}) + " " + seq([]string{cond}) + ")"
			}
			return seq([]string{init, loop, exit})
		}
		body := seq([]string{c.expr(x.Cond), c.block(x.Body.List), c.stmt(x.Post)})
		return seq([]string{c.stmt(x.Init), "(SLoop " + body + ")", c.expr(x.Cond)})
	case *ast.RangeStmt:
		var ps []string
		ps = append(ps, c.expr(x.X))
		acc := c.access(c.origins(x.X), false)
		if _, isChan := c.typeOf(x.X).Underlying().(*types.Chan); isChan {
			acc = act("AExt")
		}
		// loop variables
		if x.Value != nil {
			if id, ok := x.Value.(*ast.Ident); ok {
				if v, ok := c.info().ObjectOf(id).(*types.Var); ok {
					os := oset{}
					if refLike(v.Type()) {
						os.add(c.origins(x.X))
					}
					c.locals[v] = os
				}
			}
		}
		if x.Key != nil {
			if id, ok := x.Key.(*ast.Ident); ok {
				if v, ok := c.info().ObjectOf(id).(*types.Var); ok {
					c.locals[v] = oset{}
				}
			}
		}
		if hasBranch(x.Body.List) {
			p := c.flowBlock(x.Body.List)
			ps = append(ps, acc)
			if iter, ok := alt(p.n, p.hn, p.c, p.hc); ok {
				ps = append(ps, "(SLoop "+seq([]string{acc, iter})+")")
			}
			if p.hb {
				ps = append(ps, "(SIf "+seq([]string{acc, p.b})+" SSkip)")
			}
			return seq(ps)
		}
		body := seq([]string{acc, c.block(x.Body.List)})
		ps = append(ps, acc, "(SLoop "+body+")")
		return seq(ps)
	case *ast.SwitchStmt, *ast.TypeSwitchStmt, *ast.SelectStmt:
		// (outside a loop body that is translated by flowBlock) a `break` leaves the switch
		p := c.flowStmt(s)
		t, _ := alt(p.n, p.hn, p.c, p.hc) // a stray continue cannot occur here; kept as a path if it does
		if !p.hn && !p.hc {
			return "SSkip"
		}
		return t
	case *ast.ReturnStmt:
		var ps []string
		for _, r := range x.Results {
			ps = append(ps, c.expr(r))
		}
		// escapes: a returned reference into mutable guarded data
		for _, r := range x.Results {
			t := c.typeOf(r)
			if !refLike(t) || c.w.deepImmutable(t, 0) {
				continue
			}
			for _, o := range sortedOrigins(c.origins(r)) {
				if g, ok := c.inst[o.param]; ok && o.field != nil && c.w.written[o.field] {
					if c.depth == 0 {
						ps = append(ps, act(fmt.Sprintf("(AEscape %d)", g.loc(o.field))))
					}
				}
			}
		}
		// `return x.helper(...)`: the helper's summary says which fields of its receiver the returned
		// references point into; if x is the instance, they are the instance's guarded data
		if c.depth == 0 {
			for _, r := range x.Results {
				call, ok := ast.Unparen(r).(*ast.CallExpr)
				if !ok {
					continue
				}
				callee := c.calleeOf(call)
				se, isSel := call.Fun.(*ast.SelectorExpr)
				if callee == nil || !isSel || c.w.summ[callee] == nil {
					continue
				}
				var escs []origin
				for eo := range c.w.summ[callee].escapes {
					if eo.param == -1 && eo.field != nil && c.w.written[eo.field] {
						escs = append(escs, eo)
					}
				}
				sort.Slice(escs, func(i, j int) bool { return escs[i].field.Name() < escs[j].field.Name() })
				for _, eo := range escs {
					recv := c.addrOrigins(se.X)
					recv.add(c.origins(se.X))
					for _, co := range sortedOrigins(recv) {
						if g, ok := c.inst[co.param]; ok && co.field == nil && g.loc(eo.field) >= 0 {
							ps = append(ps, act(fmt.Sprintf("(AEscape %d)", g.loc(eo.field))))
						}
					}
				}
			}
		}
		ps = append(ps, c.deferredTerm(), "SRet")
		return seq(ps)
	case *ast.DeferStmt:
		// evaluate now what Go evaluates now (arguments), run the call at exit
		if op := c.lockOp(x.Call); op != "" {
			c.defers = append(c.defers, act(op))
			return "SSkip"
		}
		if inner, ok := x.Call.Fun.(*ast.CallExpr); ok && len(x.Call.Args) == 0 {
			// defer locked(&q.mu)(): the inner call runs now, the function it returns runs at exit
			now := c.call(inner)
			if c.lastRetFunc != "" {
				c.defers = append(c.defers, "(SCall "+c.lastRetFunc+")")
				c.lastRetFunc = ""
				return now
			}
			c.defers = append(c.defers, act("AExt"))
			return now
		}
		c.defers = append(c.defers, c.call(x.Call))
		return "SSkip"
	case *ast.GoStmt:
		// a new thread: its skeleton is emitted separately; arguments are evaluated here
		var ps []string
		for _, a := range x.Call.Args {
			ps = append(ps, c.expr(a))
		}
		sub := *c
		sub.defers = nil
		var body string
		if fl, ok := x.Call.Fun.(*ast.FuncLit); ok {
			body = sub.block(fl.Body.List)
			body = seq([]string{body, sub.deferredTerm()})
		} else {
			body = sub.call(x.Call)
		}
		for e := range sub.effs {
			c.effs[e] = true
		}
		if c.spawned != nil && c.depth == 0 {
			*c.spawned = append(*c.spawned, namedSk{name: fmt.Sprintf("go%d", len(*c.spawned)+1), term: body})
		}
		return seq(ps)
	case *ast.SendStmt:
		return seq([]string{c.expr(x.Chan), c.expr(x.Value), act("AExt")})
	case *ast.LabeledStmt:
		return c.stmt(x.Stmt)
	case *ast.BranchStmt:
		// unlabeled break / continue are handled by flowStmt; what arrives here is a labeled branch,
		// a goto or a fallthrough
		if c.depth == 0 && c.structural {
			c.w.warns = append(c.w.warns, fmt.Sprintf("%s: %s treated as fall-through", c.fd.obj.FullName(), x.Tok))
		}
		return "SSkip"
	case *ast.EmptyStmt:
		return "SSkip"
	}
	return "SSkip"
}

// ---------- break / continue ----------
//
// paths is a statement (list) translated into up to three alternatives: the executions that fall off
// its end (n), the ones that end in a `continue` of the enclosing loop (c) and the ones that end in a
// `break` of the enclosing loop or switch (b).  A `return` is an ordinary term (SRet ends the function
// in the semantics of Lock.v), so it lives in n.
type paths struct {
	n, c, b    string
	hn, hc, hb bool
}

func alt(a string, ha bool, b string, hb bool) (string, bool) {
	switch {
	case ha && hb:
		return "(SIf " + a + " " + b + ")", true
	case ha:
		return a, true
	case hb:
		return b, true
	}
	return "", false
}

// hasBranch: does the list contain an unlabeled break or continue that binds to the statement whose
// body it is (nested loops and function literals bind their own)?
func hasBranch(list []ast.Stmt) bool {
	found := false
	var walk func(n ast.Node) bool
	walk = func(n ast.Node) bool {
		switch x := n.(type) {
		case *ast.ForStmt, *ast.RangeStmt, *ast.FuncLit:
			return false
		case *ast.BranchStmt:
			if x.Label == nil && (x.Tok == token.BREAK || x.Tok == token.CONTINUE) {
				found = true
			}
		}
		return !found
	}
	for _, s := range list {
		ast.Inspect(s, walk)
	}
	return found
}

func seqPaths(a, r paths) paths {
	var out paths
	if a.hn && r.hn {
		out.n, out.hn = seq([]string{a.n, r.n}), true
	}
	out.c, out.hc = alt(a.c, a.hc, seq([]string{a.n, r.c}), a.hn && r.hc)
	out.b, out.hb = alt(a.b, a.hb, seq([]string{a.n, r.b}), a.hn && r.hb)
	return out
}

func prefixPaths(pre string, p paths) paths {
	if p.hn {
		p.n = seq([]string{pre, p.n})
	}
	if p.hc {
		p.c = seq([]string{pre, p.c})
	}
	if p.hb {
		p.b = seq([]string{pre, p.b})
	}
	return p
}

func altPaths(a, b paths) paths {
	var out paths
	out.n, out.hn = alt(a.n, a.hn, b.n, b.hn)
	out.c, out.hc = alt(a.c, a.hc, b.c, b.hc)
	out.b, out.hb = alt(a.b, a.hb, b.b, b.hb)
	return out
}

func (c *ctx) flowBlock(list []ast.Stmt) paths {
	ps := make([]paths, len(list))
	for i, s := range list { // source order: the translation is flow-sensitive
		ps[i] = c.flowStmt(s)
	}
	acc := paths{n: "SSkip", hn: true}
	for i := len(ps) - 1; i >= 0; i-- {
		acc = seqPaths(ps[i], acc)
	}
	return acc
}

func (c *ctx) flowStmt(s ast.Stmt) paths {
	switch x := s.(type) {
	case *ast.BranchStmt:
		if x.Label == nil && x.Tok == token.CONTINUE {
			return paths{c: "SSkip", hc: true}
		}
		if x.Label == nil && x.Tok == token.BREAK {
			return paths{b: "SSkip", hb: true}
		}
	case *ast.BlockStmt:
		return c.flowBlock(x.List)
	case *ast.LabeledStmt:
		return c.flowStmt(x.Stmt)
	case *ast.IfStmt:
		pre := seq([]string{c.stmt(x.Init), c.expr(x.Cond)})
		thn := c.flowBlock(x.Body.List)
		els := paths{n: "SSkip", hn: true}
		if x.Else != nil {
			els = c.flowStmt(x.Else)
		}
		return prefixPaths(pre, altPaths(thn, els))
	case *ast.SwitchStmt:
		pre := seq([]string{c.stmt(x.Init), c.expr(x.Tag)})
		return prefixPaths(pre, c.flowCases(x.Body.List))
	case *ast.TypeSwitchStmt:
		pre := seq([]string{c.stmt(x.Init), c.stmt(x.Assign)})
		return prefixPaths(pre, c.flowCases(x.Body.List))
	case *ast.SelectStmt:
		return prefixPaths(act("AExt"), c.flowCases(x.Body.List))
	}
	return paths{n: c.stmt(s), hn: true}
}

// flowCases: the clauses of a switch / select as alternatives; a `break` inside a clause leaves the
// switch, i.e. joins the executions that fall off its end; a `continue` stays a `continue`.
func (c *ctx) flowCases(list []ast.Stmt) paths {
	var out paths
	hasDefault := false
	first := true
	add := func(p paths) {
		if p.hb { // break = leave the switch
			p.n, p.hn = alt(p.n, p.hn, p.b, true)
			p.b, p.hb = "", false
		}
		if first {
			out, first = p, false
			return
		}
		out = altPaths(out, p)
	}
	for _, cl := range list {
		switch cc := cl.(type) {
		case *ast.CaseClause:
			var ps []string
			for _, e := range cc.List {
				ps = append(ps, c.expr(e))
			}
			if cc.List == nil {
				hasDefault = true
			}
			add(prefixPaths(seq(ps), c.flowBlock(cc.Body)))
		case *ast.CommClause:
			pre := c.stmt(cc.Comm)
			if cc.Comm == nil {
				hasDefault = true
			}
			add(prefixPaths(pre, c.flowBlock(cc.Body)))
		}
	}
	if !hasDefault || first {
		add(paths{n: "SSkip", hn: true})
	}
	return out
}

func (c *ctx) cases(list []ast.Stmt) string {
	var bodies []string
	hasDefault := false
	for _, cl := range list {
		switch cc := cl.(type) {
		case *ast.CaseClause:
			var ps []string
			for _, e := range cc.List {
				ps = append(ps, c.expr(e))
			}
			if cc.List == nil {
				hasDefault = true
			}
			ps = append(ps, c.block(cc.Body))
			bodies = append(bodies, seq(ps))
		case *ast.CommClause:
			var ps []string
			ps = append(ps, c.stmt(cc.Comm))
			if cc.Comm == nil {
				hasDefault = true
			}
			ps = append(ps, c.block(cc.Body))
			bodies = append(bodies, seq(ps))
		}
	}
	if !hasDefault {
		bodies = append(bodies, "SSkip")
	}
	if len(bodies) == 0 {
		return "SSkip"
	}
	out := bodies[len(bodies)-1]
	for i := len(bodies) - 2; i >= 0; i-- {
		out = "(SIf " + bodies[i] + " " + out + ")"
	}
	return out
}

func (c *ctx) block(list []ast.Stmt) string {
	var ps []string
	for _, s := range list {
		ps = append(ps, c.stmt(s))
	}
	return seq(ps)
}

// function: the whole body, deferred actions appended at the fall-through exit
func (c *ctx) function() string {
	body := c.block(c.fd.decl.Body.List)
	return seq([]string{body, c.deferredTerm()})
}

func (w *world) newCtx(fd *funcDecl) *ctx {
	c := &ctx{w: w, fd: fd, params: map[*types.Var]int{}, inst: map[int]*gtype{}, locals: map[*types.Var]oset{},
		effs: map[effect]bool{}, wantResult: -1}
	sig := fd.obj.Type().(*types.Signature)
	if sig.Recv() != nil {
		// the receiver object in Defs
		if fd.decl.Recv != nil && len(fd.decl.Recv.List) > 0 && len(fd.decl.Recv.List[0].Names) > 0 {
			if v, ok := fd.pi.info.Defs[fd.decl.Recv.List[0].Names[0]].(*types.Var); ok {
				c.params[v] = -1
				if g := w.gtypeOf(v.Type()); g != nil {
					c.inst[-1] = g
				}
			}
		}
	}
	i := 0
	if fd.decl.Type.Params != nil {
		for _, f := range fd.decl.Type.Params.List {
			if len(f.Names) == 0 {
				i++
				continue
			}
			for _, n := range f.Names {
				if v, ok := fd.pi.info.Defs[n].(*types.Var); ok {
					c.params[v] = i
					if g := w.gtypeOf(v.Type()); g != nil {
						c.inst[i] = g
					}
				}
				i++
			}
		}
	}
	// named results are locals
	if fd.decl.Type.Results != nil {
		for _, f := range fd.decl.Type.Results.List {
			for _, n := range f.Names {
				if v, ok := fd.pi.info.Defs[n].(*types.Var); ok {
					c.locals[v] = oset{}
				}
			}
		}
	}
	return c
}

// deepImmutable: a pointer to a struct none of whose fields is ever written
func (w *world) deepImmutable(t types.Type, d int) bool {
	if d > 3 {
		return false
	}
	switch u := t.Underlying().(type) {
	case *types.Pointer:
		st, ok := u.Elem().Underlying().(*types.Struct)
		if !ok {
			return false
		}
		for i := 0; i < st.NumFields(); i++ {
			if w.written[originVar(st.Field(i))] {
				return false
			}
		}
		return true
	case *types.Interface:
		return true // an interface value handed out is an opaque object with its own discipline
	}
	return false
}

// ---------- module-wide passes ----------

func (w *world) collect() {
	for _, pi := range w.pkgs {
		for _, f := range pi.files {
			for _, d := range f.Decls {
				fd, ok := d.(*ast.FuncDecl)
				if !ok || fd.Body == nil {
					continue
				}
				obj, ok := pi.info.Defs[fd.Name].(*types.Func)
				if !ok {
					continue
				}
				w.funcs[obj.Origin()] = &funcDecl{decl: fd, pi: pi, obj: obj.Origin()}
			}
		}
		// guarded types
		for _, name := range pi.pkg.Scope().Names() {
			tn, ok := pi.pkg.Scope().Lookup(name).(*types.TypeName)
			if !ok {
				continue
			}
			st, ok := tn.Type().Underlying().(*types.Struct)
			if !ok {
				continue
			}
			var mu *types.Var
			for i := 0; i < st.NumFields(); i++ {
				if isRWMutex(st.Field(i).Type()) {
					mu = st.Field(i)
				}
			}
			if mu == nil {
				continue
			}
			g := &gtype{name: pi.pkg.Name() + "." + tn.Name(), tn: tn, st: st, mu: mu}
			for i := 0; i < st.NumFields(); i++ {
				if st.Field(i) != mu {
					g.fields = append(g.fields, originVar(st.Field(i)))
				}
			}
			w.guarded[tn] = g
		}
	}
}

// fields written outside composite literals (slot or contents), syntactically
func (w *world) findWritten() {
	mark := func(pi *pkgInfo, e ast.Expr) {
		// walk down the l-value: every field selected on the way to the written cell whose
		// contents are reached through a slice/map/array index is (contents-)written; the
		// final selected field is slot-written
		for {
			switch x := e.(type) {
			case *ast.ParenExpr:
				e = x.X
				continue
			case *ast.SelectorExpr:
				if sel, ok := pi.info.Selections[x]; ok && sel.Kind() == types.FieldVal {
					w.written[originVar(sel.Obj().(*types.Var))] = true
					// a promoted field (n.Val for n.Item.Val): the embedded value structs on the implicit
					// path are written too — reading n.Item as a whole reads the written cell
					if idx := sel.Index(); len(idx) > 1 {
						t := sel.Recv()
						for _, i := range idx[:len(idx)-1] {
							if p, ok := t.Underlying().(*types.Pointer); ok {
								t = p.Elem()
							}
							st, ok := t.Underlying().(*types.Struct)
							if !ok || i >= st.NumFields() {
								break
							}
							f := st.Field(i)
							if _, isPtr := f.Type().Underlying().(*types.Pointer); !isPtr {
								w.written[originVar(f)] = true
							}
							t = f.Type()
						}
					}
					// an embedded value struct: writing a field of it writes the embedding field too
					if _, isPtr := pi.info.Types[x.X].Type.Underlying().(*types.Pointer); !isPtr {
						e = x.X
						continue
					}
				}
				return
			case *ast.IndexExpr:
				e = x.X
				continue
			case *ast.SliceExpr:
				e = x.X
				continue
			case *ast.StarExpr:
				// *p = v where p = &x.f is not tracked syntactically; handled by summaries
				return
			default:
				return
			}
		}
	}
	for _, pi := range w.pkgs {
		for _, f := range pi.files {
			ast.Inspect(f, func(n ast.Node) bool {
				switch x := n.(type) {
				case *ast.AssignStmt:
					for _, l := range x.Lhs {
						mark(pi, l)
					}
				case *ast.IncDecStmt:
					mark(pi, x.X)
				case *ast.UnaryExpr:
					if x.Op == token.AND {
						if _, isLit := x.X.(*ast.CompositeLit); !isLit {
							mark(pi, x.X)
						}
					}
				case *ast.CallExpr:
					if id, ok := x.Fun.(*ast.Ident); ok {
						if _, isB := pi.info.ObjectOf(id).(*types.Builtin); isB && len(x.Args) > 0 {
							if id.Name == "delete" || id.Name == "copy" {
								mark(pi, x.Args[0])
							}
						}
					}
				}
				return true
			})
		}
	}
}

// refineWritten un-marks fields whose only writes initialise an object nobody else can see yet:
//     it := &Item[V]{object: val}; it.expiration = ...; c.items[key] = it
// (also when the initialising write sits in an unexported helper that every caller hands a fresh
// object).  A field stays written if any site has another shape (a deeper path, &x.f, delete/copy, a
// write through a summary), or writes through something that may already be shared — in particular
// a stored object updated in place (item := c.items[k]; item.object = v) keeps its field written.
func (w *world) refineWritten() {
	type site struct {
		fd  *funcDecl
		lhs ast.Expr
	}
	sites := map[*types.Var][]site{}
	bad := map[*types.Var]bool{}
	for f := range w.writtenHard {
		bad[f] = true
	}
	fieldsOf := func(pi *pkgInfo, e ast.Expr) (fs []*types.Var, direct bool) {
		// the fields findWritten marks for this l-value; direct = the shape `ident.f`
		depth := 0
		for {
			switch x := e.(type) {
			case *ast.ParenExpr:
				e = x.X
				continue
			case *ast.SelectorExpr:
				if sel, ok := pi.info.Selections[x]; ok && sel.Kind() == types.FieldVal {
					fs = append(fs, originVar(sel.Obj().(*types.Var)))
					if len(sel.Index()) > 1 {
						depth += 2
					}
					_, baseIdent := ast.Unparen(x.X).(*ast.Ident)
					if depth == 0 && baseIdent {
						return fs, true
					}
					depth++
					if _, isPtr := pi.info.Types[x.X].Type.Underlying().(*types.Pointer); !isPtr {
						e = x.X
						continue
					}
				}
				return fs, false
			case *ast.IndexExpr:
				depth++
				e = x.X
				continue
			case *ast.SliceExpr:
				depth++
				e = x.X
				continue
			default:
				return fs, false
			}
		}
	}
	for _, fd := range w.funcs {
		fd := fd
		note := func(e ast.Expr, assign bool) {
			fs, direct := fieldsOf(fd.pi, e)
			for _, f := range fs {
				if assign && direct && len(fs) == 1 {
					sites[f] = append(sites[f], site{fd, e})
				} else {
					bad[f] = true
				}
			}
		}
		ast.Inspect(fd.decl.Body, func(n ast.Node) bool {
			switch x := n.(type) {
			case *ast.AssignStmt:
				for _, l := range x.Lhs {
					note(l, true)
				}
			case *ast.IncDecStmt:
				note(x.X, true)
			case *ast.UnaryExpr:
				if x.Op == token.AND {
					if _, isLit := x.X.(*ast.CompositeLit); !isLit {
						note(x.X, false)
					}
				}
			case *ast.CallExpr:
				if id, ok := x.Fun.(*ast.Ident); ok {
					if _, isB := fd.pi.info.ObjectOf(id).(*types.Builtin); isB && len(x.Args) > 0 && (id.Name == "delete" || id.Name == "copy") {
						note(x.Args[0], false)
					}
				}
			}
			return true
		})
	}
	// walk every function once, flow-sensitively, with the logs on
	var calls []callRec
	logs := map[*funcDecl]map[ast.Expr]int{}
	for _, fd := range w.funcs {
		c := w.newCtx(fd)
		c.siteLog = map[ast.Expr]int{}
		c.callLog = &calls
		c.function()
		logs[fd] = c.siteLog
	}
	// parameters that only ever receive objects nobody else can see (unexported functions only)
	type pkey struct {
		fn *types.Func
		i  int
	}
	seen, notFresh := map[pkey]bool{}, map[pkey]bool{}
	for _, r := range calls {
		k := pkey{r.callee, r.param}
		seen[k] = true
		if !r.fresh {
			notFresh[k] = true
		}
	}
	for f, ss := range sites {
		if bad[f] || !w.written[f] {
			continue
		}
		ok := true
		for _, st := range ss {
			v, logged := logs[st.fd][st.lhs]
			switch {
			case !logged || v == 0:
				ok = false
			case v >= 2:
				k := pkey{st.fd.obj, v - 2}
				if st.fd.obj.Exported() || !seen[k] || notFresh[k] {
					ok = false
				}
			}
		}
		if ok && len(ss) > 0 {
			delete(w.written, f)
		}
	}
}

func (w *world) findLocking() {
	// direct: body contains a lock op on an RWMutex field
	direct := map[*types.Func]bool{}
	calls := map[*types.Func][]*types.Func{}
	for fn, fd := range w.funcs {
		c := w.newCtx(fd)
		ast.Inspect(fd.decl.Body, func(n ast.Node) bool {
			// taking the address of the mutex of a guarded struct (mu := &q.mu; withLock(&q.mu, f)) or a
			// view of it (q.mu.RLocker()) announces lock operations through an alias
			if u, ok := n.(*ast.UnaryExpr); ok && u.Op == token.AND {
				if inner, ok := ast.Unparen(u.X).(*ast.SelectorExpr); ok && isRWMutex(c.typeOf(inner)) && w.gtypeOf(c.typeOf(inner.X)) != nil {
					direct[fn] = true
				}
			}
			if call, ok := n.(*ast.CallExpr); ok {
				if se, ok := call.Fun.(*ast.SelectorExpr); ok {
					nm := se.Sel.Name
					if nm == "RLocker" && isRWMutex(c.typeOf(se.X)) {
						if inner, ok := ast.Unparen(se.X).(*ast.SelectorExpr); ok && w.gtypeOf(c.typeOf(inner.X)) != nil {
							direct[fn] = true
						}
					}
					if (nm == "Lock" || nm == "Unlock" || nm == "RLock" || nm == "RUnlock") && isRWMutex(c.typeOf(se.X)) {
						// only mutexes that are fields of a guarded struct count
						if inner, ok := se.X.(*ast.SelectorExpr); ok {
							if w.gtypeOf(c.typeOf(inner.X)) != nil {
								direct[fn] = true
							}
						}
					}
				}
				for _, a := range call.Args {
					if u, ok := ast.Unparen(a).(*ast.UnaryExpr); ok && u.Op == token.AND {
						if inner, ok := ast.Unparen(u.X).(*ast.SelectorExpr); ok && isRWMutex(c.typeOf(inner)) {
							if w.gtypeOf(c.typeOf(inner.X)) != nil {
								direct[fn] = true
							}
						}
					}
				}
				if cal := c.calleeOf(call); cal != nil && w.funcs[cal] != nil {
					calls[fn] = append(calls[fn], cal)
				}
			}
			return true
		})
	}
	for fn := range direct {
		w.locking[fn] = true
	}
	for changed := true; changed; {
		changed = false
		for fn, cs := range calls {
			if w.locking[fn] {
				continue
			}
			// a function is locking if it calls a locking METHOD OF A GUARDED TYPE on a value of
			// its own receiver's guarded type (e.g. Clear -> Size); calls on other instances are AExt
			sig := fn.Type().(*types.Signature)
			if sig.Recv() == nil || w.gtypeOf(sig.Recv().Type()) == nil {
				continue
			}
			for _, cal := range cs {
				csig := cal.Type().(*types.Signature)
				if w.locking[cal] && csig.Recv() != nil && w.gtypeOf(csig.Recv().Type()) == w.gtypeOf(sig.Recv().Type()) {
					w.locking[fn] = true
					changed = true
				}
			}
		}
	}
}

func (w *world) summarise() {
	for fn := range w.funcs {
		w.summ[fn] = &summary{effs: map[effect]bool{}, escapes: map[origin]bool{}, retParams: map[int]bool{}}
	}
	// returns-fresh: every return statement returns a composite literal address, new, make,
	// a call to a fresh function, or a non-reference value
	for iter := 0; iter < 12; iter++ {
		changed := false
		for fn, fd := range w.funcs {
			if w.locking[fn] {
				continue
			}
			c := w.newCtx(fd)
			c.function()
			s := w.summ[fn]
			for e := range c.effs {
				// only effects rooted in parameters are visible to callers
				if !s.effs[e] {
					s.effs[e] = true
					changed = true
					// a method that writes through a field-rooted path marks the field written
				}
			}
			if c.ext && !s.ext {
				s.ext = true
				changed = true
			}
			fresh := w.returnsFresh(fd, c)
			if fresh != s.fresh {
				s.fresh = fresh
				changed = true
			}
			// references this function returns into (fields of) its parameters: a locking method that
			// returns the result of such a helper hands them on to ITS caller
			if w.collectReturns(fd, c, s) {
				changed = true
			}
		}
		// locking functions are inlined where they are called, but what their RESULTS may point into
		// is needed by callers that keep using them (comp, items := h.detach())
		for fn, fd := range w.funcs {
			if !w.locking[fn] {
				continue
			}
			c := w.newCtx(fd)
			c.function()
			if w.collectReturns(fd, c, w.summ[fn]) {
				changed = true
			}
		}
		// fields written through summaries: x.f.M() where M writes its receiver
		for _, pi := range w.pkgs {
			for _, f := range pi.files {
				for _, d := range f.Decls {
					fdecl, ok := d.(*ast.FuncDecl)
					if !ok || fdecl.Body == nil {
						continue
					}
					obj, _ := pi.info.Defs[fdecl.Name].(*types.Func)
					if obj == nil {
						continue
					}
					cx := w.newCtx(w.funcs[obj.Origin()])
					ast.Inspect(fdecl.Body, func(n ast.Node) bool {
						call, ok := n.(*ast.CallExpr)
						if !ok {
							return true
						}
						cal := cx.calleeOf(call)
						if cal == nil || w.summ[cal] == nil {
							return true
						}
						se, ok := call.Fun.(*ast.SelectorExpr)
						if !ok {
							return true
						}
						writesRecv := false
						for e := range w.summ[cal].effs {
							if e.write && e.o.param == -1 && e.o.field == nil {
								writesRecv = true
							}
						}
						if writesRecv {
							if inner, ok := se.X.(*ast.SelectorExpr); ok {
								if sel, ok := pi.info.Selections[inner]; ok && sel.Kind() == types.FieldVal {
									fv := originVar(sel.Obj().(*types.Var))
									w.writtenHard[fv] = true
									if !w.written[fv] {
										w.written[fv] = true
										changed = true
									}
								}
							}
						}
						// arguments passed to parameters the callee writes through
						for i, a := range call.Args {
							writesParam := false
							for e := range w.summ[cal].effs {
								if e.write && e.o.param == i && e.o.field == nil {
									writesParam = true
								}
							}
							if writesParam {
								if inner, ok := a.(*ast.SelectorExpr); ok {
									if sel, ok := pi.info.Selections[inner]; ok && sel.Kind() == types.FieldVal {
										fv := originVar(sel.Obj().(*types.Var))
										w.writtenHard[fv] = true
										if !w.written[fv] {
											w.written[fv] = true
											changed = true
										}
									}
								}
							}
						}
						return true
					})
				}
			}
		}
		if !changed {
			break
		}
	}
}

// collectReturns records in s what the references returned by fd may point into (c has just walked
// the body, so the locals carry their origins at the END of the body: a local detached by
// `x := h.f; h.f = nil` is private).  Reports whether s grew.
func (w *world) collectReturns(fd *funcDecl, c *ctx, s *summary) bool {
	changed := false
	record := func(t *summary, o origin) {
		if o.field != nil && !t.escapes[o] {
			t.escapes[o] = true
			changed = true
		}
		if o.field == nil && !t.retParams[o.param] {
			t.retParams[o.param] = true
			changed = true
		}
	}
	ast.Inspect(fd.decl.Body, func(n ast.Node) bool {
		switch x := n.(type) {
		case *ast.FuncLit:
			return false
		case *ast.ReturnStmt:
			for i, r := range x.Results {
				t := c.typeOf(r)
				if t == nil || (!refLike(t) && !isTuple(t)) || w.deepImmutable(t, 0) {
					continue
				}
				for o := range c.origins(r) {
					record(s, o)
					if len(x.Results) > 1 {
						if s.perResult == nil {
							s.perResult = map[int]*summary{}
						}
						if s.perResult[i] == nil {
							s.perResult[i] = &summary{escapes: map[origin]bool{}, retParams: map[int]bool{}}
						}
						record(s.perResult[i], o)
					}
				}
			}
		}
		return true
	})
	return changed
}

func (w *world) returnsFresh(fd *funcDecl, c *ctx) bool {
	fresh := true
	any := false
	ast.Inspect(fd.decl.Body, func(n ast.Node) bool {
		if _, ok := n.(*ast.FuncLit); ok {
			return false
		}
		r, ok := n.(*ast.ReturnStmt)
		if !ok {
			return true
		}
		for _, e := range r.Results {
			any = true
			if !refLike(c.typeOf(e)) {
				continue
			}
			if len(c.origins(e)) > 0 {
				fresh = false
			}
		}
		return true
	})
	return fresh && any
}

// ---------- main ----------

type methodOut struct {
	Type    string   `json:"type"`
	Method  string   `json:"method"`
	Name    string   `json:"name"`
	Threads []string `json:"threads"`
}

func coqName(s string) string {
	r := strings.NewReplacer(".", "_", "$", "_", "*", "", "[", "_", "]", "_")
	return r.Replace(s)
}

func main() {
	if len(os.Args) < 2 {
		fmt.Fprintln(os.Stderr, "usage: skel <out.v> [report.json]")
		os.Exit(2)
	}
	w := &world{fset: token.NewFileSet(), pkgs: map[string]*pkgInfo{}, funcs: map[*types.Func]*funcDecl{},
		guarded: map[*types.TypeName]*gtype{}, written: map[*types.Var]bool{}, writtenHard: map[*types.Var]bool{}, summ: map[*types.Func]*summary{},
		locking: map[*types.Func]bool{}}
	w.std = importer.ForCompiler(w.fset, "source", nil)
	for _, d := range pkgDirs {
		p := modPath
		if d != "" {
			p += "/" + d
		}
		if _, err := w.load(p); err != nil {
			fmt.Fprintln(os.Stderr, "skel: cannot load", p, err)
			os.Exit(1)
		}
	}
	w.collect()
	w.findWritten()
	w.findLocking()
	w.summarise()
	before := len(w.written)
	w.refineWritten()
	if len(w.written) != before {
		w.summ = map[*types.Func]*summary{}
		w.summarise()
	}

	var out strings.Builder
	out.WriteString("(* GENERATED by harness/cmd/skel from the Go source of the tree under test — do not edit. *)\n")
	out.WriteString("From Coq Require Import List String.\nFrom Gogu Require Import Lock.\nImport ListNotations.\nOpen Scope string_scope.\n\n")
	var gts []*gtype
	for _, g := range w.guarded {
		gts = append(gts, g)
	}
	sort.Slice(gts, func(i, j int) bool { return gts[i].name < gts[j].name })
	var report []methodOut
	var entries []string
	for _, g := range gts {
		out.WriteString(fmt.Sprintf("(* %s: locations", g.name))
		for i, f := range g.fields {
			mut := "immutable"
			if w.written[f] {
				mut = "mutable"
			}
			out.WriteString(fmt.Sprintf(" %d=%s(%s)", i, f.Name(), mut))
		}
		out.WriteString(" *)\n")
		// exported methods whose receiver is this guarded type (or a wrapper embedding it)
		var fns []*types.Func
		for fn := range w.funcs {
			sig := fn.Type().(*types.Signature)
			if sig.Recv() == nil || w.gtypeOf(sig.Recv().Type()) != g {
				continue
			}
			if !fn.Exported() && fn.Name() != "cleanup" {
				continue
			}
			fns = append(fns, fn)
		}
		sort.Slice(fns, func(i, j int) bool { return fns[i].Name() < fns[j].Name() })
		for _, fn := range fns {
			fd := w.funcs[fn]
			c := w.newCtx(fd)
			c.structural = true
			var spawned []namedSk
			c.spawned = &spawned
			term := c.function()
			tname := strings.TrimPrefix(g.name, "")
			// wrapper naming: cache.cache -> cache.Cache
			disp := tname
			if disp == "cache.cache" {
				disp = "cache.Cache"
			}
			base := coqName("sk_" + disp + "_" + fn.Name())
			out.WriteString(fmt.Sprintf("Definition %s : sk :=\n  %s.\n", base, term))
			m := methodOut{Type: disp, Method: fn.Name(), Name: disp + "." + fn.Name(), Threads: []string{base}}
			entries = append(entries, fmt.Sprintf("(\"%s.%s\", %s)", disp, fn.Name(), base))
			for _, sp := range spawned {
				n := base + "_" + sp.name
				out.WriteString(fmt.Sprintf("Definition %s : sk :=\n  %s.\n", n, sp.term))
				entries = append(entries, fmt.Sprintf("(\"%s.%s$%s\", %s)", disp, fn.Name(), sp.name, n))
				m.Threads = append(m.Threads, n)
			}
			report = append(report, m)
		}
		out.WriteString("\n")
	}
	out.WriteString("Definition all_methods : list (string * sk) := [\n  " + strings.Join(entries, ";\n  ") + "\n].\n")
	for _, wmsg := range w.warns {
		out.WriteString("(* warning: " + strings.NewReplacer("(*", "( *", "*)", "* )").Replace(wmsg) + " *)\n")
	}
	if err := os.WriteFile(os.Args[1], []byte(out.String()), 0o644); err != nil {
		panic(err)
	}
	if len(os.Args) > 2 {
		js, _ := json.MarshalIndent(map[string]any{"methods": report, "warnings": w.warns}, "", " ")
		os.WriteFile(os.Args[2], js, 0o644)
	}
}
