module verifharness

go 1.20

require (
	github.com/esimov/gogu v0.0.0
	golang.org/x/exp v0.0.0-20230303215020-44a13b063f3e
)

require golang.org/x/sync v0.1.0 // indirect

replace github.com/esimov/gogu => /repo
