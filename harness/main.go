// Command harness drives the real esimov/gogu implementation (module replaced
// by the working tree under test) and records, per case, a wire input and the
// projected observables as lists of integers — the same format the Gallina
// models consume (coq/theories/Base.v).
//
//	harness gen  <ID> <tier> <seed> <out.tsv> <stats.json>
//	harness exec <ID> "<ints>"            (replay of one wire input; prints observed ints)
//	harness describe <ID> "<ints>"        (human-readable rendering of a wire input)
//
// It decides nothing: judging is done by the extracted model/property checker.
package main

import (
	"bufio"
	"encoding/json"
	"fmt"
	"hash/fnv"
	"math/rand"
	"os"
	"sort"
	"strconv"
	"strings"
	"time"
)

// Prop is what every property file registers.
type Prop struct {
	ID   string
	Rule string // how cases are generated and what makes one non-trivial
	// Exec runs the implementation on a wire input and returns the observables.
	// May be nil for properties whose inputs are only known after the run
	// (measured clock values); those use g.Raw.
	Exec func(in []int64) []int64
	// Gen enumerates / draws cases, calling g.Case or g.Raw.
	Gen func(g *Gen)
	// Describe renders a wire input for humans (optional).
	Describe func(in []int64) string
}

var registry = map[string]*Prop{}

func register(p *Prop) { registry[p.ID] = p }

// Gen is the sink handed to a property's generator.
type Gen struct {
	P      *Prop
	Tier   string // "quick" | "thorough"
	Seed   int64
	Rng    *rand.Rand
	out    *bufio.Writer
	seen   map[uint64]bool
	stats  Stats
	budget time.Time
	// the previous case of a pure-helper property (see repeatIDs)
	prevIn, prevObs []int64
}

type Stats struct {
	Evaluations        int            `json:"evaluations"`
	Distinct           int            `json:"distinct"`
	DistinctNontrivial int            `json:"distinct_nontrivial"`
	PerStream          map[string]int `json:"per_stream"`
	Exhaustive         map[string]bool `json:"exhaustive_streams"`
	Counters           map[string]int `json:"distribution"`
	Samples            []Sample       `json:"samples"`
	Rule               string         `json:"rule"`
	sampleEvery        int
}

type Sample struct {
	Stream   string  `json:"stream"`
	Input    []int64 `json:"input"`
	Observed []int64 `json:"observed"`
	Text     string  `json:"text,omitempty"`
}

// needsObserver is the one-element observation an Exec returns for an input
// that can only be run with a verif observer the tree under test lacks
const needsObserver = -999997

func (g *Gen) Quick() bool { return g.Tier != "thorough" }

// Pick returns q in the quick tier and t in the thorough tier.
func (g *Gen) Pick(q, t int) int {
	if g.Quick() {
		return q
	}
	return t
}

// Count bumps a named counter of the input distribution (sizes, op kinds,
// error kinds, boundary hits ...) that ends up in the evidence.
func (g *Gen) Count(key string) { g.stats.Counters[key]++ }

// Exhaustive marks a stream as a complete enumeration of its stated scope.
func (g *Gen) Exhaustive(stream string) { g.stats.Exhaustive[stream] = true }

// repeatIDs: properties about pure helpers (the observation is a function of the wire input
// alone).  For these every case is executed again later — right after itself and after the
// next case (A; A; B; A) — and a re-execution that answers differently is recorded as a case
// of its own (stream "repeat"), which the judge then rejects: a helper that keeps hidden state
// between calls (a memo of the last result handed out by reference, a reused buffer) shows up.
// The value is the sampling period: 1 = every case; the container properties build a fresh instance per
// case, so there only package-level state could leak from one case to the next — every 5th case is re-run.
var repeatIDs = map[string]int{"C11": 1, "C12": 1, "C13": 1, "C14": 1, "C15": 1,
	"C03": 5, "C04": 5, "C05": 5, "C06": 5, "C07": 5, "C09": 5, "C10": 5, "C16": 5, "C19": 5}

// aliasIDs: properties whose slice arguments are also passed as adjacent windows of one backing array
// (util.go, aliasedMode); an answer that differs from the one on independent slices is recorded as a
// case of stream "aliased".  Replay: VERIF_ALIASED=1 harness exec …
var aliasIDs = map[string]bool{"C11": true, "C12": true, "C13": true, "C14": true}

func sameInts(a, b []int64) bool {
	if len(a) != len(b) {
		return false
	}
	for i := range a {
		if a[i] != b[i] {
			return false
		}
	}
	return true
}

// Case executes the implementation on the wire input and records the case.
func (g *Gen) Case(stream string, nontrivial bool, in []int64) {
	obs := g.P.Exec(in)
	g.Raw(stream, nontrivial, in, obs)
	period := repeatIDs[g.P.ID]
	if period == 0 || len(in) > 4096 || g.stats.Evaluations%period != 0 {
		return
	}
	if aliasIDs[g.P.ID] {
		aliasedMode = true
		resetArenas()
		al := g.P.Exec(in)
		aliasedMode = false
		g.stats.Counters["aliased_executions"]++
		if !sameInts(al, obs) {
			g.stats.Counters["aliased_differs"]++
			g.Raw("aliased", true, in, al)
		}
	}
	g.stats.Counters["repeat_executions"]++
	// the stream name carries the call sequence that produced the observation, so that a
	// replay can reproduce it: "repeat|<input>|<input>|..." (the last one is the judged case)
	seqName := func(ins ...[]int64) string {
		var sb strings.Builder
		sb.WriteString("repeat")
		for _, x := range ins {
			sb.WriteByte('|')
			writeInts(&sb, x)
		}
		return sb.String()
	}
	if again := g.P.Exec(in); !sameInts(again, obs) {
		g.stats.Counters["repeat_differs"]++
		g.Raw(seqName(in, in), true, in, again)
	}
	if g.prevIn != nil {
		if again := g.P.Exec(g.prevIn); !sameInts(again, g.prevObs) {
			g.stats.Counters["repeat_differs"]++
			g.Raw(seqName(g.prevIn, in, in, g.prevIn), true, g.prevIn, again)
		}
	}
	g.prevIn, g.prevObs = append([]int64{}, in...), obs
}

// Raw records a case whose observables were produced by the caller.
func (g *Gen) Raw(stream string, nontrivial bool, in, obs []int64) {
	if len(obs) == 1 && obs[0] == needsObserver {
		// the input needs an add-only observer (*_verif.go) that the tree under test does not carry
		g.stats.Counters["skipped_needs_absent_observer"]++
		return
	}
	g.stats.Evaluations++
	full := stream // may carry a call sequence after '|' (repeat cases); statistics use the bare name
	if i := strings.IndexByte(stream, '|'); i >= 0 {
		stream = stream[:i]
	}
	g.stats.PerStream[stream]++
	h := fnv.New64a()
	var sb strings.Builder
	writeInts(&sb, in)
	h.Write([]byte(sb.String()))
	key := h.Sum64()
	fresh := !g.seen[key]
	if fresh {
		g.seen[key] = true
		g.stats.Distinct++
		if nontrivial {
			g.stats.DistinctNontrivial++
		}
	}
	nt := "0"
	if nontrivial {
		nt = "1"
	}
	g.out.WriteString(full)
	g.out.WriteByte('\t')
	g.out.WriteString(nt)
	g.out.WriteByte('\t')
	g.out.WriteString(sb.String())
	g.out.WriteByte('\t')
	var ob strings.Builder
	writeInts(&ob, obs)
	g.out.WriteString(ob.String())
	g.out.WriteByte('\n')
	// keep a handful of samples: the first two of every stream, then sparse ones
	n := g.stats.PerStream[stream]
	if len(g.stats.Samples) < 40 && (n <= 2 || (nontrivial && n%g.stats.sampleEvery == 0)) {
		s := Sample{Stream: stream, Input: append([]int64{}, in...), Observed: append([]int64{}, obs...)}
		if g.P.Describe != nil {
			s.Text = g.P.Describe(in)
		}
		g.stats.Samples = append(g.stats.Samples, s)
	}
}

func writeInts(sb *strings.Builder, xs []int64) {
	for i, x := range xs {
		if i > 0 {
			sb.WriteByte(' ')
		}
		sb.WriteString(strconv.FormatInt(x, 10))
	}
}

func parseInts(s string) []int64 {
	var out []int64
	for _, f := range strings.Fields(s) {
		v, err := strconv.ParseInt(f, 10, 64)
		if err != nil {
			fmt.Fprintln(os.Stderr, "harness: bad integer", f)
			os.Exit(2)
		}
		out = append(out, v)
	}
	return out
}

func main() {
	if len(os.Args) < 3 {
		fmt.Fprintln(os.Stderr, "usage: harness gen|exec|describe <ID> ...")
		os.Exit(2)
	}
	p := registry[os.Args[2]]
	if p == nil {
		ids := []string{}
		for k := range registry {
			ids = append(ids, k)
		}
		sort.Strings(ids)
		fmt.Fprintln(os.Stderr, "harness: unknown property", os.Args[2], "known:", ids)
		os.Exit(2)
	}
	if os.Getenv("VERIF_ALIASED") == "1" {
		aliasedMode = true
	}
	switch os.Args[1] {
	case "exec":
		if p.Exec == nil {
			fmt.Fprintln(os.Stderr, "harness: property has no replayable exec")
			os.Exit(2)
		}
		var sb strings.Builder
		writeInts(&sb, p.Exec(parseInts(os.Args[3])))
		fmt.Println(sb.String())
	case "execseq":
		// harness execseq <ID> "<ints>" "<ints>" ... : the inputs are executed one after the other in
		// this process; the observation of the last one is printed (replay of a "repeat" case)
		if p.Exec == nil {
			os.Exit(2)
		}
		var last []int64
		for _, a := range os.Args[3:] {
			last = p.Exec(parseInts(a))
		}
		var sb strings.Builder
		writeInts(&sb, last)
		fmt.Println(sb.String())
	case "describe":
		if p.Describe != nil {
			fmt.Println(p.Describe(parseInts(os.Args[3])))
		}
	case "gen":
		if len(os.Args) < 7 {
			fmt.Fprintln(os.Stderr, "usage: harness gen <ID> <tier> <seed> <out.tsv> <stats.json>")
			os.Exit(2)
		}
		seed, _ := strconv.ParseInt(os.Args[4], 10, 64)
		f, err := os.Create(os.Args[5])
		if err != nil {
			panic(err)
		}
		g := &Gen{P: p, Tier: os.Args[3], Seed: seed, Rng: rand.New(rand.NewSource(seed)),
			out: bufio.NewWriterSize(f, 1<<20), seen: map[uint64]bool{}}
		g.stats = Stats{PerStream: map[string]int{}, Exhaustive: map[string]bool{}, Counters: map[string]int{},
			Rule: p.Rule, sampleEvery: 997}
		runCorpus(g)
		p.Gen(g)
		g.out.Flush()
		f.Close()
		js, _ := json.MarshalIndent(g.stats, "", " ")
		os.WriteFile(os.Args[6], js, 0o644)
	default:
		fmt.Fprintln(os.Stderr, "harness: unknown mode", os.Args[1])
		os.Exit(2)
	}
}

// runCorpus replays corpus/<ID>/*.case (one wire input per line, '#' comments)
// before anything else.  The directory is given by VERIF_CORPUS.
func runCorpus(g *Gen) {
	dir := os.Getenv("VERIF_CORPUS")
	if dir == "" || g.P.Exec == nil {
		return
	}
	ents, err := os.ReadDir(dir + "/" + g.P.ID)
	if err != nil {
		return
	}
	for _, e := range ents {
		if !strings.HasSuffix(e.Name(), ".case") {
			continue
		}
		data, err := os.ReadFile(dir + "/" + g.P.ID + "/" + e.Name())
		if err != nil {
			continue
		}
		for _, line := range strings.Split(string(data), "\n") {
			line = strings.TrimSpace(line)
			if line == "" || strings.HasPrefix(line, "#") {
				continue
			}
			g.Case("corpus", true, parseInts(line))
		}
	}
}
