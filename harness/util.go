package main

import (
	"math/rand"
	"time"
)

// ---------- wire encoding (mirror of coq/theories/Base.v) ----------

// W builds a wire word list.
type W struct{ w []int64 }

func (b *W) Int(x int) *W      { b.w = append(b.w, int64(x)); return b }
func (b *W) I64(x int64) *W    { b.w = append(b.w, x); return b }
func (b *W) Bool(x bool) *W    { b.w = append(b.w, b2i(x)); return b }
func (b *W) Raw(xs []int64) *W { b.w = append(b.w, xs...); return b }
func (b *W) Ints(xs []int) *W { // enc_zs: length then elements
	b.w = append(b.w, int64(len(xs)))
	for _, x := range xs {
		b.w = append(b.w, int64(x))
	}
	return b
}
func (b *W) Intss(xss [][]int) *W { // enc_zss
	b.w = append(b.w, int64(len(xss)))
	for _, xs := range xss {
		b.Ints(xs)
	}
	return b
}
func (b *W) Bytes(s string) *W { // a byte string as enc_zs of its bytes
	b.w = append(b.w, int64(len(s)))
	for i := 0; i < len(s); i++ {
		b.w = append(b.w, int64(s[i]))
	}
	return b
}
func (b *W) Out() []int64 { return b.w }

func b2i(x bool) int64 {
	if x {
		return 1
	}
	return 0
}

// results: Ok ↦ 0 :: payload, Err k ↦ [1 k], Panic ↦ [2]  (enc_res)
func resOk(payload ...int64) []int64 { return append([]int64{0}, payload...) }
func resErr(kind int64) []int64      { return []int64{1, kind} }
func resPanic() []int64              { return []int64{2} }

// R reads a wire word list.
type R struct {
	w   []int64
	bad bool
}

func (r *R) Int() int {
	if len(r.w) == 0 {
		r.bad = true
		return 0
	}
	x := r.w[0]
	r.w = r.w[1:]
	return int(x)
}
func (r *R) I64() int64 { return int64(r.Int()) }
func (r *R) Bool() bool { return r.Int() != 0 }
func (r *R) Ints() []int {
	n := r.Int()
	if n < 0 || n > len(r.w) {
		r.bad = true
		return nil
	}
	out := allocInts(n)
	for i := range out {
		out[i] = r.Int()
	}
	return out
}

// ---------- aliased inputs ----------
//
// In aliased mode every slice argument decoded from the wire is a WINDOW of one shared backing
// array, adjacent to the previously decoded one and with its capacity running on into its
// neighbours — the shape of slices that came out of Chunk, Drop or s[i:j].  Pure helpers must
// answer exactly as on independent slices; one that appends onto, or builds its result inside,
// an argument overwrites a neighbouring argument and is exposed (stream "aliased").
var aliasedMode bool
var intArena []int
var intArenaOff int

func resetArenas() { intArena, intArenaOff, anyArena, anyArenaOff = nil, 0, nil, 0 }

func allocInts(n int) []int {
	if !aliasedMode {
		return make([]int, n)
	}
	if intArenaOff+n > len(intArena) {
		sz := 4096
		if 4*n > sz {
			sz = 4 * n
		}
		intArena, intArenaOff = make([]int, sz), 0
	}
	w := intArena[intArenaOff : intArenaOff+n]
	intArenaOff += n
	return w
}

var anyArena any
var anyArenaOff int

// allocWindow is allocInts for any element type (one arena per Exec call and element type).
func allocWindow[T any](n int) []T {
	if !aliasedMode {
		return make([]T, n)
	}
	a, ok := anyArena.([]T)
	if !ok || anyArenaOff+n > len(a) {
		sz := 4096
		if 4*n > sz {
			sz = 4 * n
		}
		a = make([]T, sz)
		anyArena, anyArenaOff = a, 0
	}
	w := a[anyArenaOff : anyArenaOff+n]
	anyArenaOff += n
	return w
}
func (r *R) Intss() [][]int {
	n := r.Int()
	if n < 0 || n > 100000 {
		r.bad = true
		return nil
	}
	out := make([][]int, n)
	for i := range out {
		out[i] = r.Ints()
	}
	return out
}
func (r *R) Bytes() string {
	xs := r.Ints()
	b := make([]byte, len(xs))
	for i, x := range xs {
		b[i] = byte(x)
	}
	return string(b)
}
func (r *R) Rest() []int64 { w := r.w; r.w = nil; return w }
func (r *R) Done() bool    { return len(r.w) == 0 && !r.bad }

// ---------- running implementation code safely ----------

// try runs f and reports whether it panicked.
func try(f func()) (panicked bool) {
	defer func() {
		if recover() != nil {
			panicked = true
		}
	}()
	f()
	return false
}

// tryTimeout runs f in a goroutine; reports panic or hang (no return within d).
// A hung goroutine is leaked — acceptable in a short-lived process.
func tryTimeout(d time.Duration, f func()) (panicked, hung bool) {
	done := make(chan bool, 1)
	go func() {
		p := try(f)
		done <- p
	}()
	select {
	case p := <-done:
		return p, false
	case <-time.After(d):
		return false, true
	}
}

// ---------- enumeration helpers ----------

// seqs calls fn with every sequence over {0..k-1} of length exactly n.
func seqsExact(k, n int, fn func(seq []int)) {
	seq := make([]int, n)
	var rec func(i int)
	rec = func(i int) {
		if i == n {
			fn(seq)
			return
		}
		for v := 0; v < k; v++ {
			seq[i] = v
			rec(i + 1)
		}
	}
	rec(0)
}

// seqsUpTo calls fn with every sequence over {0..k-1} of length 0..maxLen,
// shortest first (so that the first failing case is a shortest one).
func seqsUpTo(k, maxLen int, fn func(seq []int)) {
	for n := 0; n <= maxLen; n++ {
		seqsExact(k, n, fn)
	}
}

// slicesOver calls fn with every slice of length 0..maxLen over the alphabet.
func slicesOver(alpha []int, maxLen int, fn func(s []int)) {
	seqsUpTo(len(alpha), maxLen, func(seq []int) {
		s := make([]int, len(seq))
		for i, v := range seq {
			s[i] = alpha[v]
		}
		fn(s)
	})
}

func randSlice(r *rand.Rand, maxLen, lo, hi int) []int {
	n := r.Intn(maxLen + 1)
	s := make([]int, n)
	for i := range s {
		s[i] = lo + r.Intn(hi-lo+1)
	}
	return s
}

func cloneInts(s []int) []int { return append([]int{}, s...) }
