(* driver.ml — runs the extracted Gallina wire functions on case lines.

   usage:  driver <ID> < cases.tsv > out.tsv
   input line :  <stream> \t <nontrivial> \t <input ints> \t <observed ints>
   output line:  <model ints> \t <agree 0|1> \t <holds 0|1> \t <holds-on-model 0|1>

   Nothing here decides anything: it converts decimal text <-> Coq's binary Z
   and calls Models.cXX_run / _agree / _holds (extracted with ExtrOcamlBasic,
   no Extract Constant / Extract Inductive of our own). *)

open Models

(* Wire words are Go int64 values; OCaml's native int has 63 bits, so the
   conversion goes through Int64 (read as unsigned while halving, so that
   -(min_int) = 2^63 comes out right).  Values the model may produce beyond
   int64 are printed by schoolbook doubling. *)
let rec pos_of_i64 (n : int64) : positive =
  if Int64.equal n 1L then XH
  else if Int64.equal (Int64.logand n 1L) 0L then XO (pos_of_i64 (Int64.shift_right_logical n 1))
  else XI (pos_of_i64 (Int64.shift_right_logical n 1))

let z_of_i64 (n : int64) : z =
  if Int64.equal n 0L then Z0
  else if Int64.compare n 0L > 0 then Zpos (pos_of_i64 n)
  else Zneg (pos_of_i64 (Int64.neg n))

let z_of_int (n : int) : z = z_of_i64 (Int64.of_int n)

let rec bits_of_pos (p : positive) : int =
  match p with XH -> 1 | XO q -> 1 + bits_of_pos q | XI q -> 1 + bits_of_pos q

let rec int_of_pos (p : positive) : int =
  match p with
  | XH -> 1
  | XO q -> 2 * int_of_pos q
  | XI q -> 2 * int_of_pos q + 1

(* decimal text of an arbitrary positive: most significant bit first, d := 2d + bit *)
let dec_of_pos (p : positive) : string =
  let rec msb_first p acc = match p with
    | XH -> 1 :: acc | XO q -> msb_first q (0 :: acc) | XI q -> msb_first q (1 :: acc) in
  let digits = ref [0] in   (* little endian *)
  Stdlib.List.iter (fun b ->
      let carry = ref b in
      let ds = Stdlib.List.map (fun d -> let v = 2 * d + !carry in carry := v / 10; v mod 10) !digits in
      digits := if !carry > 0 then ds @ [!carry] else ds) (msb_first p []);
  String.concat "" (Stdlib.List.rev_map string_of_int !digits)

let string_of_z (x : z) : string =
  match x with
  | Z0 -> "0"
  | Zpos p -> if bits_of_pos p <= 62 then string_of_int (int_of_pos p) else dec_of_pos p
  | Zneg p -> if bits_of_pos p <= 62 then string_of_int (- (int_of_pos p)) else "-" ^ dec_of_pos p

let int_of_z (x : z) : int =
  match x with Z0 -> 0 | Zpos p -> int_of_pos p | Zneg p -> - (int_of_pos p)

(* tail-recursive throughout: a record may hold millions of words *)
let split_ws (s : string) : string list =
  Stdlib.List.rev (Stdlib.List.rev (Stdlib.List.filter (fun t -> t <> "") (String.split_on_char ' ' s)))

let parse_ints (s : string) : z list =
  Stdlib.List.rev (Stdlib.List.rev_map (fun t ->
      if String.length t <= 18 then z_of_int (int_of_string t) else z_of_i64 (Int64.of_string t)) (split_ws s))

let show_ints (l : z list) : string =
  String.concat " " (Stdlib.List.rev (Stdlib.List.rev_map string_of_z l))

let self_test () =
  let samples = [0; 1; -1; 2; 255; -256; 1 lsl 40; -(1 lsl 40) + 7; max_int / 2; - (max_int / 2)] in
  Stdlib.List.iter (fun n ->
      if int_of_z (z_of_int n) <> n then (prerr_endline "driver: Z conversion self-test failed"; exit 3))
    samples;
  Stdlib.List.iter (fun t ->
      if show_ints (parse_ints t) <> t then (prerr_endline ("driver: int64 conversion self-test failed on " ^ t); exit 3))
    ["9223372036854775807"; "-9223372036854775808"; "-9223372036854775807"; "4611686018427387904";
     "-4611686018427387904"; "4611686018427387903"; "4294967296"; "-2147483648"; "0"; "-1"]

let () =
  self_test ();
  if Array.length Sys.argv < 2 then (prerr_endline "usage: driver <ID>"; exit 2);
  let id = Sys.argv.(1) in
  let (run, agree, holds) =
    try Stdlib.List.assoc id Dispatch.table
    with Not_found -> (prerr_endline ("driver: no model for " ^ id); exit 2) in
  let b01 b = if b then "1" else "0" in
  (try
     while true do
       let line = input_line stdin in
       match String.split_on_char '\t' line with
       | [_stream; _nt; inp; obs] ->
           let i = parse_ints inp and o = parse_ints obs in
           let m = run i in
           print_string (show_ints m); print_char '\t';
           print_string (b01 (agree i o)); print_char '\t';
           print_string (b01 (holds i o)); print_char '\t';
           print_string (b01 (holds i m)); print_char '\n'
       | _ -> prerr_endline ("driver: malformed line: " ^ line); exit 2
     done
   with End_of_file -> ())
