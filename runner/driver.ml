(* driver.ml — runs the extracted Gallina wire functions on case lines.

   usage:  driver <ID> < cases.tsv > out.tsv
   input line :  <stream> \t <nontrivial> \t <input ints> \t <observed ints>
   output line:  <model ints> \t <agree 0|1> \t <holds 0|1> \t <holds-on-model 0|1>

   Nothing here decides anything: it converts decimal text <-> Coq's binary Z
   and calls Models.cXX_run / _agree / _holds (extracted with ExtrOcamlBasic,
   no Extract Constant / Extract Inductive of our own). *)

open Models

let rec pos_of_int (n : int) : positive =
  if n = 1 then XH
  else if n land 1 = 0 then XO (pos_of_int (n lsr 1))
  else XI (pos_of_int (n lsr 1))

let z_of_int (n : int) : z =
  if n = 0 then Z0 else if n > 0 then Zpos (pos_of_int n) else Zneg (pos_of_int (- n))

let rec int_of_pos (p : positive) : int =
  match p with
  | XH -> 1
  | XO q -> 2 * int_of_pos q
  | XI q -> 2 * int_of_pos q + 1

let int_of_z (x : z) : int =
  match x with Z0 -> 0 | Zpos p -> int_of_pos p | Zneg p -> - (int_of_pos p)

let split_ws (s : string) : string list =
  Stdlib.List.filter (fun t -> t <> "") (String.split_on_char ' ' s)

let parse_ints (s : string) : z list =
  Stdlib.List.map (fun t -> z_of_int (int_of_string t)) (split_ws s)

let show_ints (l : z list) : string =
  String.concat " " (Stdlib.List.map (fun x -> string_of_int (int_of_z x)) l)

let self_test () =
  let samples = [0; 1; -1; 2; 255; -256; 1 lsl 40; -(1 lsl 40) + 7; max_int / 2; - (max_int / 2)] in
  Stdlib.List.iter (fun n ->
      if int_of_z (z_of_int n) <> n then (prerr_endline "driver: Z conversion self-test failed"; exit 3))
    samples

let () =
  self_test ();
  if Array.length Sys.argv < 2 then (prerr_endline "usage: driver <ID>"; exit 2);
  let id = Sys.argv.(1) in
  let (run, agree, holds) =
    try Stdlib.List.assoc id Dispatch.table
    with Not_found -> (prerr_endline ("driver: no model for " ^ id); exit 2) in
  let b01 b = if b then "1" else "0" in
  (try
     while true do
       let line = input_line stdin in
       match String.split_on_char '\t' line with
       | [_stream; _nt; inp; obs] ->
           let i = parse_ints inp and o = parse_ints obs in
           let m = run i in
           print_string (show_ints m); print_char '\t';
           print_string (b01 (agree i o)); print_char '\t';
           print_string (b01 (holds i o)); print_char '\t';
           print_string (b01 (holds i m)); print_char '\n'
       | _ -> prerr_endline ("driver: malformed line: " ^ line); exit 2
     done
   with End_of_file -> ())
