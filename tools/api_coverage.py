#!/usr/bin/env python3
"""api_coverage.py: which exported functions/methods of /repo are driven by the correspondence harness.
Self-audit helper (not referenced from MANIFEST.json); prints a markdown summary for DESIGN.md §1."""
import glob, os, re, subprocess
ROOT = os.path.dirname(os.path.dirname(os.path.abspath(__file__)))
ENV = dict(os.environ, GOFLAGS="-mod=mod", GOPROXY="off", GOSUMDB="off", GOTOOLCHAIN="local")
pkgs = [".", "./bstree", "./btree", "./cache", "./heap", "./list", "./queue", "./stack", "./trie"]
api = []
for p in pkgs:
    out = subprocess.run(["go", "doc", "-all", p], cwd="/repo", env=ENV, stdout=subprocess.PIPE, stderr=subprocess.DEVNULL, text=True).stdout
    for l in out.split("\n"):
        m = re.match(r"func (\([a-z]+ \*?([A-Za-z]+)(\[[^]]*\])?\) )?([A-Za-z]+)", l)
        if m:
            api.append((p, m.group(2) or "", m.group(4)))
src = "".join(open(f).read() for f in glob.glob(ROOT + "/harness/*.go") + glob.glob(ROOT + "/harness/cmd/*/*.go"))
missing = []
for pkg, typ, name in api:
    pk = "gogu" if pkg == "." else pkg[2:]
    pat = r"\." + name + r"\b" if typ else r"\b" + pk + r"\." + name + r"\b"
    if not re.search(pat, src):
        missing.append("%s.%s%s" % (pk, typ + "." if typ else "", name))
print("%d of %d exported functions and methods are called by the harness; not called directly: %s" % (len(api) - len(missing), len(api), ", ".join(missing)))
