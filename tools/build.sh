#!/bin/bash
# Offline build of the proof development and the model runners.
#   tools/build.sh            everything (setup_cmd): coq_makefile + make -j16 (full .vo), hygiene scan, all runners
#   tools/build.sh clean      the same from scratch
#   tools/build.sh C07 [...]  only what property C07 needs: theories/C07_Wire.vo, theories/C07_Props.vo and
#                             extra targets given after the id; its runner
# Exit != 0 if anything fails, including the hygiene scan.
set -u
ROOT="$(cd "$(dirname "$0")/.." && pwd)"
cd "$ROOT"; mkdir -p work
MODE="${1:-all}"

# --- glue + Makefile under a short global lock
exec 9>"$ROOT/work/.glue.lock"; flock 9
IDS="$(python3 tools/gen_glue.py)" || exit 1
cd "$ROOT/coq"
if [ "$MODE" = "clean" ]; then
  find . \( -name '*.vo' -o -name '*.vok' -o -name '*.vos' -o -name '*.glob' -o -name '*.aux' \) -print0 | xargs -0 -r rm -f
  rm -f Makefile Makefile.conf .Makefile.d
  rm -rf "$ROOT/runner/bin" "$ROOT/runner/build"
  MODE=all
fi
if [ ! -f Makefile ] || [ _CoqProject -nt Makefile ]; then
  coq_makefile -f _CoqProject -o Makefile >/dev/null 2>&1 || { echo "build: coq_makefile failed"; exit 1; }
  rm -f .Makefile.d
fi
flock -u 9

if [ "$MODE" = "all" ]; then
  exec 8>"$ROOT/work/.make.lock"; flock 8
  if ! make -q >/dev/null 2>&1; then
    timeout 3300 make -j16 > build.log 2>&1
    st=$?
    if [ "$st" != "0" ]; then grep -B2 -A12 -E "^Error|Error:" build.log | head -60; echo "build: coq make FAILED (see coq/build.log)"; exit 1; fi
  fi
  flock -u 8
  cd "$ROOT"
  python3 tools/hygiene.py || { echo "build: hygiene scan FAILED"; exit 1; }
  fail=0
  printf '%s\n' $IDS | xargs -r -P 8 -n 1 bash tools/build_runner.sh || fail=1
  [ "$fail" = 0 ] || { echo "build: runner build FAILED"; exit 1; }
  echo "build: ok (all; wire ids: $IDS)"
  exit 0
fi

# --- one property
ID="$MODE"; shift
exec 8>"$ROOT/work/.make.$ID.lock"; flock 8
TARGETS=""
[ -f "theories/${ID}_Wire.v" ] && TARGETS="$TARGETS theories/${ID}_Wire.vo"
[ -f "theories/${ID}_Props.v" ] && TARGETS="$TARGETS theories/${ID}_Props.vo"
for t in "$@"; do TARGETS="$TARGETS $t"; done
if [ -n "$TARGETS" ]; then
  if ! make -q $TARGETS >/dev/null 2>&1; then
    timeout 3300 make -j8 $TARGETS > "build.$ID.log" 2>&1
    st=$?
    if [ "$st" != "0" ]; then grep -B2 -A12 -E "^Error|Error:" "build.$ID.log" | head -60; echo "build: coq make FAILED for $ID (see coq/build.$ID.log)"; exit 1; fi
  fi
fi
cd "$ROOT"
python3 tools/hygiene.py --only "$ID" >/dev/null || { python3 tools/hygiene.py --only "$ID"; echo "build: hygiene scan FAILED"; exit 1; }
if [ -f "coq/theories/${ID}_Wire.v" ]; then
  bash tools/build_runner.sh "$ID" || exit 1
fi
echo "build: ok ($ID)"
