#!/bin/bash
# Full offline build of the proof development and the model runner.
#   tools/build.sh          incremental (make decides)
#   tools/build.sh clean    from scratch
# Leaves: coq/**/*.vo, coq/build.log, runner/driver.  Exit != 0 if anything
# fails, including the hygiene scan (no Admitted / Axiom / ... anywhere).
set -u
ROOT="$(cd "$(dirname "$0")/.." && pwd)"
cd "$ROOT"
export GOFLAGS=-mod=mod GOPROXY=off GOSUMDB=off GOTOOLCHAIN=local

exec 9>"$ROOT/work/.build.lock" 2>/dev/null || { mkdir -p "$ROOT/work"; exec 9>"$ROOT/work/.build.lock"; }
flock 9

python3 tools/gen_glue.py || exit 1

cd "$ROOT/coq"
if [ "${1:-}" = "clean" ]; then
  [ -f Makefile ] && make -s clean >/dev/null 2>&1
  find . -name '*.vo' -o -name '*.vok' -o -name '*.vos' -o -name '*.glob' -o -name '*.aux' | xargs -r rm -f
  rm -f Makefile Makefile.conf .Makefile.d
fi
if [ ! -f Makefile ] || [ _CoqProject -nt Makefile ]; then
  coq_makefile -f _CoqProject -o Makefile >/dev/null || exit 1
fi
# full .vo build (never -vos / -vok)
if ! make -q >/dev/null 2>&1; then
  timeout 3000 make -j16 2>&1 | tee build.log.tmp | grep -E "^(COQC|Error|File|make)" | grep -v "^COQC" | head -50
  st=${PIPESTATUS[0]}
  mv build.log.tmp build.log
  if [ "$st" != "0" ]; then echo "build: coq make FAILED (see coq/build.log)"; exit 1; fi
fi

# hygiene: nothing admitted, no axioms declared, no checks switched off
cd "$ROOT"
if python3 tools/hygiene.py; then :; else echo "build: hygiene scan FAILED"; exit 1; fi

# extraction + runner, only when a Wire .vo (or the driver) is newer than the binary
cd "$ROOT/runner"
need=0
[ -x driver ] || need=1
for f in ../coq/theories/*_Wire.vo driver.ml dispatch.ml ../coq/extract/Extract.v; do
  [ "$f" -nt driver ] && need=1
done
if [ "$need" = 1 ]; then
  rm -f models.ml models.mli
  timeout 600 coqc -Q ../coq/theories Gogu ../coq/extract/Extract.v >/dev/null 2>extract.err || { cat extract.err; echo "build: extraction FAILED"; exit 1; }
  rm -f ../coq/extract/Extract.vo ../coq/extract/Extract.glob ../coq/extract/.Extract.aux ../coq/extract/Extract.vok ../coq/extract/Extract.vos extract.err
  timeout 600 ocamlfind ocamlopt -w -a -O2 models.mli models.ml dispatch.ml driver.ml -o driver 2>ocaml.err \
    || timeout 600 ocamlfind ocamlopt -w -a models.mli models.ml dispatch.ml driver.ml -o driver 2>ocaml.err \
    || { cat ocaml.err; echo "build: runner FAILED"; exit 1; }
  rm -f ocaml.err *.cmi *.cmx *.o
fi
echo "build: ok"
