"""Custom flow of ./check for C01 (and shared pieces for C02):
   translator -> regenerated skeletons -> Coq obligations -> race harness."""
import json, os, re, shutil, subprocess, time

def _sh(cmd, cwd=None, env=None, timeout=3600):
    p = subprocess.run(cmd, cwd=cwd, env=env, timeout=timeout, stdout=subprocess.PIPE, stderr=subprocess.STDOUT, text=True)
    return p.returncode, p.stdout

def translate(ctx):
    """Build and run the translator on the tree under test; compile the regenerated
    Skeletons.v in work/<pid>/gen.  Returns (ok, info dict)."""
    H = ctx["helpers"]
    root, repo, workdir, goenv = ctx["root"], ctx["repo"], ctx["workdir"], ctx["goenv"]
    gen = os.path.join(workdir, "gen")
    os.makedirs(gen, exist_ok=True)
    skel = os.path.join(workdir, "skel")
    rc, out = _sh(["go", "build", "-o", skel, "./cmd/skel"], cwd=os.path.join(root, "harness"), env=goenv, timeout=900)
    if rc != 0:
        H.fail_machinery("translator does not build", out)
    t0 = time.time()
    rc, out = _sh([skel, os.path.join(gen, "Skeletons.v"), os.path.join(workdir, "skel.json")], cwd=repo, env=goenv, timeout=600)
    info = {"translate_s": round(time.time() - t0, 2)}
    if rc != 0:
        info["error"] = "translator failed on the tree under test:\n" + out[-2000:]
        return False, info
    rc, out = _sh(["coqc", "-Q", os.path.join(root, "coq", "theories"), "Gogu", "-Q", gen, "GoguGen",
                   os.path.join(gen, "Skeletons.v")], cwd=gen, timeout=900)
    if rc != 0:
        info["error"] = "regenerated Skeletons.v does not compile:\n" + out[-2000:]
        return False, info
    rep = json.load(open(os.path.join(workdir, "skel.json")))
    info["methods"] = [m["name"] for m in rep["methods"]]
    info["threads"] = sum(len(m["threads"]) for m in rep["methods"])
    info["warnings"] = rep.get("warnings") or []
    return True, info

def eval_lists(ctx, defs):
    """Evaluate Gallina expressions of type list string over the regenerated skeletons."""
    root, workdir = ctx["root"], ctx["workdir"]
    gen = os.path.join(workdir, "gen")
    lines = ["From Coq Require Import List String Bool.", "From Gogu Require Import Lock.",
             "From GoguGen Require Import Skeletons.", "Import ListNotations."]
    for name, expr in defs.items():
        lines.append("Definition %s := Eval vm_compute in (%s)." % (name, expr))
        lines.append("Print %s." % name)
    vf = os.path.join(gen, "Eval_lists.v")
    open(vf, "w").write("\n".join(lines) + "\n")
    rc, out = _sh(["coqc", "-Q", os.path.join(root, "coq", "theories"), "Gogu", "-Q", gen, "GoguGen", vf], cwd=gen, timeout=900)
    res = {}
    for name in defs:
        m = re.search(r"%s\s*=\s*(\[.*?\])\s*:\s*list" % name, out, flags=re.S)
        res[name] = re.findall(r'"([^"]+)"', m.group(1)) if m else None
    return res, out

def recheck_props_against_gen(ctx, files):
    """coqc the property's theorem files against the REGENERATED skeletons."""
    H = ctx["helpers"]
    root, workdir = ctx["root"], ctx["workdir"]
    gen = os.path.join(workdir, "gen")
    theorems, logs, broken = [], [], None
    for f in files:
        src = open(os.path.join(root, "coq", f)).read()
        names = re.findall(r"^\s*Print Assumptions\s+([\w.']+)\s*\.", src, flags=re.M)
        base = os.path.basename(f)
        # compile a copy inside gen/ so that the .vo lands there and later files can Require it
        shutil.copy(os.path.join(root, "coq", f), os.path.join(gen, base))
        rc, out = _sh(["coqc", "-Q", os.path.join(root, "coq", "theories"), "Gogu", "-Q", gen, "GoguGen",
                       os.path.join(gen, base)], cwd=gen, timeout=1800)
        logs.append("== coqc %s (against regenerated skeletons) rc=%d\n%s" % (f, rc, out))
        if rc != 0:
            broken = f
            for n in names:
                theorems.append({"theorem": n, "file": f, "axioms": ["<not checked: file does not compile>"], "ok": False})
            break
        blocks = H.parse_assumptions(out)
        for i, n in enumerate(names):
            ax = blocks[i] if i < len(blocks) else ["<unparsed>"]
            ok = all(a in H.ALLOWED_AXIOMS or a.split(".")[-1] in H.ALLOWED_AXIOMS for a in ax)
            theorems.append({"theorem": n, "file": f, "axioms": ax, "ok": ok})
    return theorems, broken, "\n".join(logs)

def build_racebin(ctx):
    root, repo, workdir, goenv = ctx["root"], ctx["repo"], ctx["workdir"], ctx["goenv"]
    hdir = os.path.join(root, "harness")
    modfile = os.path.join(workdir, "go.mod")
    gomod = open(os.path.join(hdir, "go.mod")).read()
    gomod = re.sub(r"(replace github\.com/esimov/gogu => )\S+", r"\g<1>" + repo, gomod)
    open(modfile, "w").write(gomod)
    shutil.copy(os.path.join(repo, "go.sum"), os.path.join(workdir, "go.sum"))
    binp = os.path.join(workdir, "racebin")
    rc, out = _sh(["go", "build", "-race", "-modfile", modfile, "-o", binp, "./cmd/race"], cwd=hdir, env=goenv, timeout=1200)
    return rc, out, binp

def run_race(ctx, binp, tier, seed, filters=(), reps=None, tag="race"):
    workdir, goenv = ctx["workdir"], ctx["goenv"]
    outp = os.path.join(workdir, tag + ".jsonl")
    errp = os.path.join(workdir, tag + ".err")
    env = dict(goenv, GORACE="halt_on_error=0 history_size=2")
    if reps:
        env["RACE_REPS"] = str(reps)
    with open(errp, "w") as ferr:
        try:
            p = subprocess.run([binp, tier, str(seed), outp] + list(filters), cwd=workdir, env=env, stdout=subprocess.DEVNULL,
                               stderr=ferr, timeout=2400 if tier == "thorough" else 900)
            rc = p.returncode
        except subprocess.TimeoutExpired:
            rc = 124
    results = []
    if os.path.exists(outp):
        for l in open(outp):
            l = l.strip()
            if l:
                results.append(json.loads(l))
    # attribute race reports to scenarios by the markers on stderr
    races = {}
    cur = None
    text = open(errp, errors="replace").read()
    block = []
    for line in text.split("\n"):
        if line.startswith("@@SCENARIO "):
            cur = line[len("@@SCENARIO "):].strip()
        elif line.startswith("WARNING: DATA RACE"):
            block = [line]
            races.setdefault(cur, []).append(block)
        elif block is not None and len(block) < 40 and races.get(cur) and block is races[cur][-1]:
            block.append(line)
    completed = "@@END" in text
    return rc, results, races, completed

def summarize_race(block):
    fr = [l.strip() for l in block if re.match(r"\s+github\.com/esimov/gogu", l)]
    return " / ".join(fr[:4])

def run(ctx):
    H = ctx["helpers"]
    pid, tier, seed, root, workdir = ctx["pid"], ctx["tier"], ctx["seed"], ctx["root"], ctx["workdir"]
    cfg = ctx["cfg"]
    t0 = ctx["t0"]
    H.ensure_build(pid, ["theories/Lock.vo", "gen/Skeletons.vo", "theories/C01_Props.vo"])
    kf = H.load("findings")
    known = kf.load_known(root, pid)
    known_methods = set()
    for f in known:
        known_methods.update(f.get("methods", []))

    if ctx["replay"]:
        return replay(ctx, known)

    violations = []
    # 1. translator + obligations
    ok, tinfo = translate(ctx)
    theorems, broken, prooflog = [], None, ""
    lists = {}
    if not ok:
        up = os.path.join(workdir, "unproved_translator.json")
        json.dump({"property": pid, "broken": "translation of the Go source into skeletons", "detail": tinfo.get("error", "")}, open(up, "w"), indent=1)
        violations.append(("noinput", up, "the translator could not process the tree under test"))
    else:
        theorems, broken, prooflog = recheck_props_against_gen(ctx, cfg["props"])
        open(os.path.join(workdir, "proofs.log"), "w").write(prooflog)
        lists, _ = eval_lists(ctx, {"not_wb": "map fst (filter (fun m => negb (check (snd m))) all_methods)"})
    not_wb = [m for m in (lists.get("not_wb") or [])]
    unexpected = [m for m in not_wb if m.split("$")[0] not in known_methods]

    # 2. race harness: all pairs (cheap), intensified on the methods whose obligation broke
    rc, out, binp = build_racebin(ctx)
    race_stats = {"scenarios": 0, "reps": 0}
    samples = []
    found_concrete = []
    if rc != 0:
        up = os.path.join(workdir, "unproved_harness_build.json")
        json.dump({"property": pid, "broken": "race harness does not build against the tree under test", "log_tail": out[-3000:]}, open(up, "w"), indent=1)
        violations.append(("noinput", up, "race harness does not build"))
    else:
        rrc, results, races, completed = run_race(ctx, binp, tier, seed)
        if unexpected:
            filt = sorted({m.split(".")[-1].split("$")[0] for m in unexpected})
            rrc2, results2, races2, completed2 = run_race(ctx, binp, tier, seed + 1, filters=filt, reps=600 if tier == "quick" else 3000, tag="race_focus")
            results += results2
            for k, v in races2.items():
                races.setdefault(k, []).extend(v)
        race_stats["scenarios"] = len(results)
        race_stats["reps"] = sum(r["reps"] for r in results)
        race_stats["completed"] = completed
        if not completed:
            up = os.path.join(workdir, "unproved_harness_run.json")
            json.dump({"property": pid, "broken": "race harness did not finish (crash or timeout)"}, open(up, "w"), indent=1)
            violations.append(("noinput", up, "race harness did not finish"))
        for r in results[:6]:
            samples.append({"scenario": r["scenario"], "reps": r["reps"], "panics": r["panics"], "hangs": r["hangs"]})
        for r in results:
            bad = []
            if r["panics"]:
                bad.append("panic: " + r.get("panic_msg", ""))
            if r["hangs"]:
                bad.append("blocked forever (watchdog)")
            if r.get("sanity"):
                bad.append(r["sanity"])
            for b in races.get(r["scenario"], []):
                bad.append("data race: " + summarize_race(b))
            if bad:
                fid = match_known(known, r, bad)
                if fid:
                    continue
                found_concrete.append((r, bad))
    if found_concrete:
        r, bad = found_concrete[0]
        rp = os.path.join(workdir, "replay_1.json")
        json.dump({"property": pid, "scenario": r["scenario"], "type": r["type"], "methods": r["methods"], "state": r["state"],
                   "observed": bad, "all_failing_scenarios": [x[0]["scenario"] for x in found_concrete][:50],
                   "replay_cmd": "./check C01 --replay " + os.path.relpath(rp, root)}, open(rp, "w"), indent=1)
        violations.append(("input", rp, "%d scenarios fail; first: %s: %s" % (len(found_concrete), r["scenario"], "; ".join(bad)[:300])))
    if (broken or unexpected) and not found_concrete:
        up = os.path.join(workdir, "unproved_all_wb.json")
        json.dump({"property": pid, "broken": "obligation C01_all_methods_wb (coq/theories/C01_Props.v) on the regenerated skeletons",
                   "methods_not_well_bracketed": unexpected, "log_tail": prooflog[-2500:]}, open(up, "w"), indent=1)
        violations.append(("noinput", up, "methods not well bracketed: %s" % ", ".join(unexpected)))

    for f in known:
        print("KNOWN-FINDING: property=%s %s [%s]" % (pid, f["what"], f["id"]))
    nviol = len(violations)
    for kind, path, text in violations:
        rel = os.path.relpath(path, root)
        print("VIOLATION property=%s replay=%s%s" % (pid, rel, "" if kind == "input" else " no-failing-input-found"))
        print("  (" + text + ")")
    nob = len(theorems) or 1
    ndis = len([t for t in theorems if t["ok"]])
    axioms_seen = set(a for t in theorems for a in t["axioms"] if not a.startswith("<"))
    stats = {"evaluations": race_stats["reps"], "distinct_nontrivial": race_stats["scenarios"],
             "rule": "translator: every exported method of the 8 guarded types (one skeleton per method and per spawned goroutine), checked by Lock.check. race harness: every unordered pair of public methods of each type x small initial states, both start orders alternating, randomised GOMAXPROCS and injected yields, under the Go race detector with recovered panics, a watchdog and a post-scenario sanity sequence (thorough: sampled triples and 12-call mixes). evaluations = concurrent repetitions run; distinct_nontrivial = distinct scenarios (type/methods/state)",
             "samples": [], "per_stream": {"race_scenarios": race_stats["scenarios"]}, "distribution": {}, "exhaustive_streams": {}}
    for s in samples:
        stats["samples"].append({"stream": "race", "input": [], "observed": [], "text": json.dumps(s)})
    H.write_evidence(pid, tier, seed, cfg, theorems, nob, ndis, axioms_seen, stats, [], 0, len(found_concrete), nviol, t0,
                     extra={"methods_translated": tinfo.get("methods", []), "thread_skeletons": tinfo.get("threads", 0),
                            "translator_warnings": tinfo.get("warnings", []), "not_well_bracketed": not_wb,
                            "race_scenarios": race_stats["scenarios"], "race_repetitions": race_stats["reps"],
                            "translate_s": tinfo.get("translate_s")})
    print("check %s: %s  methods=%d scenarios=%d reps=%d theorems=%d/%d wall=%.1fs" % (
        pid, "FAIL" if nviol else "ok", len(tinfo.get("methods", [])), race_stats["scenarios"], race_stats["reps"], ndis, nob, time.time() - t0))
    return 1 if nviol else 0

def match_known(known, r, bad):
    for f in known:
        ms = set(m.split(".")[-1] for m in f.get("methods", []))
        ty = f.get("type")
        if ty and ty != r["type"]:
            continue
        if ms and ms & set(r["methods"]):
            return f["id"]
    return None

def replay(ctx, known):
    pid, root, workdir = ctx["pid"], ctx["root"], ctx["workdir"]
    path = ctx["replay"]
    data = json.load(open(path if os.path.isabs(path) else os.path.join(root, path)))
    if "scenario" not in data:
        print("replay: %s names a broken obligation, not a schedule:\n%s" % (path, json.dumps(data, indent=1)[:3000]))
        return 1
    rc, out, binp = build_racebin(ctx)
    if rc != 0:
        print(out[-2000:]); return 1
    rrc, results, races, completed = run_race(ctx, binp, "quick", ctx["seed"], filters=[data["scenario"]], reps=2000, tag="race_replay")
    failed = False
    for r in results:
        if r["scenario"] != data["scenario"]:
            continue
        bad = []
        if r["panics"]:
            bad.append("panic: " + r.get("panic_msg", ""))
        if r["hangs"]:
            bad.append("blocked forever")
        if r.get("sanity"):
            bad.append(r["sanity"])
        for b in races.get(r["scenario"], []):
            bad.append("data race: " + summarize_race(b))
        print("replay %s: %d repetitions: %s" % (r["scenario"], r["reps"], "; ".join(bad) if bad else "nothing observed"))
        if bad and not match_known(known, r, bad):
            failed = True
    if failed:
        print("VIOLATION property=%s replay=%s" % (pid, path))
        return 1
    print("replay: passes")
    return 0
