"""Known findings: loading /verif/known_findings.json and the narrow matchers
that attribute a model-predicted property failure to a listed finding.  The file
is never written at run time."""
import json, os

def load_known(root, pid):
    try:
        data = json.load(open(os.path.join(root, "known_findings.json")))
    except FileNotFoundError:
        return []
    return [f for f in data.get("findings", []) if f.get("property") == pid]

# matcher name -> predicate(input ints, observed ints) -> bool
MATCHERS = {}

def matcher(name):
    def deco(fn):
        MATCHERS[name] = fn
        return fn
    return deco

def match(known, pid, inp, obs):
    for f in known:
        m = MATCHERS.get(f.get("matcher", ""))
        if m is not None:
            try:
                if m(inp, obs):
                    return f["id"]
            except Exception:
                pass
    return None
