"""Known findings: loading /verif/known_findings.json and the narrow matchers
that attribute a model-predicted property failure to a listed finding.  The file
is never written at run time."""
import glob, json, os

def load_known(root, pid):
    try:
        data = json.load(open(os.path.join(root, "known_findings.json")))
    except FileNotFoundError:
        return []
    fs = list(data.get("findings", []))
    for extra in sorted(glob.glob(os.path.join(root, "known_findings.d", "*.json"))):
        fs += json.load(open(extra)).get("findings", [])
    _load_matchers(root)
    return [f for f in fs if f.get("property") == pid]

def _load_matchers(root):
    import importlib.util
    for mf in sorted(glob.glob(os.path.join(root, "tools", "matchers.d", "*.py"))):
        spec = importlib.util.spec_from_file_location("matchers_" + os.path.basename(mf)[:-3], mf)
        mod = importlib.util.module_from_spec(spec)
        spec.loader.exec_module(mod)
        for name, fn in getattr(mod, "MATCHERS", {}).items():
            MATCHERS[name] = fn

# matcher name -> predicate(input ints, observed ints) -> bool
MATCHERS = {}

def matcher(name):
    def deco(fn):
        MATCHERS[name] = fn
        return fn
    return deco

def match(known, pid, inp, obs):
    for f in known:
        m = MATCHERS.get(f.get("matcher", ""))
        if m is not None:
            try:
                if m(inp, obs):
                    return f["id"]
            except Exception:
                pass
    return None
