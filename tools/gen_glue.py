#!/usr/bin/env python3
"""Regenerate coq/_CoqProject from the files present (theories/*.v, gen/*.v) and
print the ids that have a wire file (coq/theories/Cxx_Wire.v defining
cxx_run / cxx_agree / cxx_holds)."""
import os, re, sys, glob

ROOT = os.path.dirname(os.path.dirname(os.path.abspath(__file__)))
TH = os.path.join(ROOT, "coq", "theories")

def wire_ids():
    ids = []
    for f in sorted(glob.glob(os.path.join(TH, "C*_Wire.v"))):
        m = re.match(r"(C\d+)_Wire\.v$", os.path.basename(f))
        if not m:
            continue
        pid = m.group(1)
        src = open(f).read()
        low = pid.lower()
        if all(re.search(r"Definition\s+%s_%s\b" % (low, s), src) for s in ("run", "agree", "holds")):
            ids.append(pid)
    return ids

def write_if_changed(path, content):
    os.makedirs(os.path.dirname(path), exist_ok=True)
    try:
        if open(path).read() == content:
            return False
    except FileNotFoundError:
        pass
    with open(path, "w") as fh:
        fh.write(content)
    return True

def main():
    vs = sorted(os.path.basename(p) for p in glob.glob(os.path.join(TH, "*.v")))
    gens = sorted(os.path.basename(p) for p in glob.glob(os.path.join(ROOT, "coq", "gen", "*.v")))
    proj = ["-Q theories Gogu", "-Q gen GoguGen", "-arg -w",
            "-arg -notation-overridden,-deprecated-hint-without-locality,-deprecated-instance-without-locality", ""]
    proj += ["theories/" + v for v in vs]
    proj += ["gen/" + v for v in gens]
    write_if_changed(os.path.join(ROOT, "coq", "_CoqProject"), "\n".join(proj) + "\n")
    print(" ".join(wire_ids()))

if __name__ == "__main__":
    main()
