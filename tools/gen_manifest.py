#!/usr/bin/env python3
"""Regenerate MANIFEST.json from tools/propcfg.py (claimed properties) and properties.jsonl."""
import json, os, importlib.util
ROOT = os.path.dirname(os.path.dirname(os.path.abspath(__file__)))
spec = importlib.util.spec_from_file_location("propcfg", os.path.join(ROOT, "tools", "propcfg.py"))
cfg = importlib.util.module_from_spec(spec); spec.loader.exec_module(cfg)
props = [json.loads(l) for l in open(os.path.join(ROOT, "properties.jsonl")) if l.strip()]
checks, na = [], []
for p in props:
    pid = p["id"]
    c = cfg.CONFIG.get(pid)
    if c is None or c.get("unclaimed"):
        na.append({"property_id": pid, "reason": (c or {}).get("unclaimed", "check still under construction in this round; not yet claimed")})
        continue
    checks.append({
        "property_id": pid,
        "quick_cmd": "./check %s --tier quick" % pid,
        "thorough_cmd": "./check %s --tier thorough" % pid,
        "evidence_file": "/verif/evidence/%s.json" % pid,
        "replay_cmd_template": "./check %s --replay {path}" % pid,
        "engine": "coq-proof+correspondence",
        "level_claimed": {"category": "proof", "text": c.get("level_text", ""), "design_ref": c.get("design_ref", "DESIGN.md §6 " + pid)},
        "level_note": c.get("level_note", ""),
        "technique": c.get("technique", "machine-checked proof in Coq 8.16 about a Gallina model + differential correspondence check model vs. implementation"),
    })
man = {
    "version": 1,
    "setup_cmd": "bash tools/build.sh",
    "hooks": {"guard": "verif", "enable": "go build -tags verif (harness module replaces github.com/esimov/gogu by the working tree)",
              "baseline_off_cmd": "cd /repo && go test -vet=off -count=1 ./...",
              "source_commits": cfg.HOOK_COMMITS, "add_only": True},
    "engines": [{"name": "coq-proof+correspondence", "path": "/verif/check",
                 "serves_properties": [c["property_id"] for c in checks],
                 "kind_free_text": "Coq 8.16.1 theorems over hand-written Gallina models (coq/theories), models extracted to OCaml (runner/) and compared with the Go implementation driven by harness/ on exhaustive small scopes + seeded random cases; for C01/C02 a Go translator regenerates lock/effect skeletons checked by generic Coq theorems"}],
    "checks": checks,
    "not_applicable": na,
    "notes": "All checks rebuild the Go harness against /repo's working tree on every run; the Coq development is built once by setup_cmd and re-built incrementally if /verif changed; each run re-checks the property's theorem file with coqc. known_findings.json lists recorded findings and fixed defects.",
}
json.dump(man, open(os.path.join(ROOT, "MANIFEST.json"), "w"), indent=1)
print("manifest: %d checks, %d not_applicable" % (len(checks), len(na)))
