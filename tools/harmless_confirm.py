#!/usr/bin/env python3
"""harmless_confirm.py <PID> <n> <scratch-worktree> <dir with patch.diff, README.md> [check-PID ...]

Self-test helper (never referenced from MANIFEST.json).  A fresh agent that saw only the text of property <PID>
produced a change it argues is behaviour-PRESERVING (refactoring / optimisation / API-compatible extension).  This
script applies it in the scratch worktree, checks that the tree builds and the pinned suite passes, and runs the
checks of every property anchored in a touched file (plus <PID>) against the changed worktree.  A check that exits
non-zero or prints a VIOLATION line is either a false alarm of the machinery or a change that is not harmless after
all: the lead decides which (recorded in meta.json as `verdict`, initially "?" for alarms).  Recorded under
/verif/harmless/<PID>-h<n>/ (patch.diff, README.md, meta.json).  The worktree is restored afterwards.
VERIF_ROOT_OVERRIDE=<dir> runs the checks of a frozen copy of /verif (so that concurrent edits do not interfere)."""
import json, os, re, shutil, subprocess, sys, time

ROOT = os.path.dirname(os.path.dirname(os.path.abspath(__file__)))
RUN_ROOT = os.environ.get("VERIF_ROOT_OVERRIDE", ROOT)
ENV = dict(os.environ, GOFLAGS="-mod=mod", GOPROXY="off", GOSUMDB="off", GOTOOLCHAIN="local")

def sh(cmd, cwd, timeout=3600, env=ENV):
    p = subprocess.run(cmd, cwd=cwd, env=env, shell=isinstance(cmd, str), stdout=subprocess.PIPE, stderr=subprocess.STDOUT, text=True, timeout=timeout)
    return p.returncode, p.stdout

def props_for(files):
    out = []
    for l in open(os.path.join(ROOT, "properties.jsonl")):
        p = json.loads(l)
        anchors = p["anchors"]["files"]
        if any(f in anchors for f in files):
            out.append(p["id"])
    return out

def main():
    pid, n, wt, d = sys.argv[1:5]
    head = subprocess.check_output(["git", "-C", "/repo", "rev-parse", "HEAD"], text=True).strip()
    if os.path.exists("/tmp/harm_head"):          # the commit the patches of this wave were written against
        head = open("/tmp/harm_head").read().strip()
    sh(["git", "checkout", "-q", "--detach", head], wt)
    keep = "-e TASK.md -e TASK2.md -e TASK3.md -e TASK4.md -e TASK5.md -e OUT"
    sh("git checkout -q -- . && git clean -fdq " + keep, wt)
    patch = os.path.abspath(os.path.join(d, "patch.diff"))
    files = re.findall(r"(?m)^\+\+\+ b/(\S+)", open(patch).read())
    checks = sys.argv[5:] or sorted(set([pid] + props_for(files)))
    # C01/C02 speak about every lock-guarded container
    if any(f.split("/")[0] in ("bstree", "cache", "heap", "queue", "stack", "trie") for f in files):
        checks = sorted(set(checks + ["C01", "C02"]))
    meta = {"property": pid, "id": "%s-h%s" % (pid, n), "repo_head": head, "files": files,
            "confirmed_at": time.strftime("%Y-%m-%dT%H:%M:%SZ", time.gmtime())}
    tag = "harm%s%s" % (pid, n)
    try:
        rc, out = sh(["git", "apply", patch], wt)
        meta["patch_applies"] = rc == 0
        if rc != 0:
            print("patch does not apply:", out)
            return meta
        rc, out = sh("go build ./... && go vet ./... > /dev/null 2>&1; go build ./...", wt)
        meta["builds_with_change"] = rc == 0
        suite = "fails"
        for attempt in range(3):
            rc, out = sh("go test -vet=off -count=1 $(go list ./... | grep -v /OUT)", wt, timeout=1800)
            bad = [l for l in out.split("\n") if l.startswith("--- FAIL")]
            bad = [l for l in bad if not re.search(r"Example_after|TestFunc_Debounce|TestBSTree_Concurrency", l)]
            if rc == 0 or (not bad and "--- FAIL" in out):
                suite = "passes" if rc == 0 else "passes (only known-flaky tests failed)"
                break
            suite = "fails: " + ("; ".join(bad) or out[-300:])[:300]
        meta["pinned_suite_with_change"] = suite
        meta["checks"] = {}
        for c in checks:
            t0 = time.time()
            rc, out = sh(["./check", c, "--tier", os.environ.get("TIER", "quick")], RUN_ROOT, timeout=3600,
                         env=dict(ENV, VERIF_REPO=wt, VERIF_SCRATCH=tag))
            viol = [l for l in out.split("\n") if l.startswith("VIOLATION")]
            viol.sort(key=lambda l: "no-failing-input-found" in l)
            detail = ""
            if viol:
                m = re.search(re.escape(viol[0]) + r"\n\s+\(([^\n]*)", out)
                if m:
                    detail = m.group(1)[:600]
            notes = [l for l in out.split("\n") if l.startswith("NOTE:")]
            meta["checks"][c] = {"exit": rc, "alarm": rc != 0 or bool(viol), "violation_lines": viol[:4], "detail": detail,
                                 "notes": sorted(set(notes))[:3], "last_line": [l for l in out.split("\n") if l.strip()][-1][:300] if out.strip() else "",
                                 "wall_s": round(time.time() - t0, 1)}
            shutil.rmtree(os.path.join(RUN_ROOT, "work", c + "." + tag), ignore_errors=True) if not (rc != 0 or viol) else None
    finally:
        sh("git checkout -q -- . && git clean -fdq " + keep, wt)
    sd = os.path.join(ROOT, "harmless", "%s-h%s" % (pid, n))
    os.makedirs(sd, exist_ok=True)
    shutil.copy(patch, os.path.join(sd, "patch.diff"))
    readme = os.path.join(d, "README.md")
    if os.path.exists(readme):
        shutil.copy(readme, os.path.join(sd, "README.md"))
    alarms = [c for c, v in (meta.get("checks") or {}).items() if v["alarm"]]
    meta["verdict"] = "green: no check raised an alarm" if not alarms else "?"
    meta["what_was_run"] = ["git apply patch.diff (scratch worktree)", "go build ./... && go test -vet=off -count=1 ./..."] + \
                           ["VERIF_REPO=<worktree> ./check %s --tier quick" % c for c in checks]
    json.dump(meta, open(os.path.join(sd, "meta.json"), "w"), indent=1)
    return meta

if __name__ == "__main__":
    m = main()
    print(json.dumps({k: m.get(k) for k in ("id", "files", "pinned_suite_with_change", "verdict")}))
    for c, v in (m.get("checks") or {}).items():
        print("  check %s: alarm=%s exit=%s %s %s" % (c, v["alarm"], v["exit"], (v["violation_lines"] or [v["last_line"]])[0], v["detail"][:200]))
