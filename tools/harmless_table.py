#!/usr/bin/env python3
"""Rewrite the harmless-changes table of DESIGN.md §12 (between the markers) from harmless/*/meta.json."""
import glob, json, os, re
ROOT = os.path.dirname(os.path.dirname(os.path.abspath(__file__)))
rows = []
for f in sorted(glob.glob(os.path.join(ROOT, "harmless", "*", "meta.json"))):
    m = json.load(open(f))
    d = os.path.dirname(f)
    what = ""
    rd = os.path.join(d, "README.md")
    if os.path.exists(rd):
        for para in re.split(r"\n\s*\n", open(rd).read()):
            p = " ".join(l.strip() for l in para.split("\n") if not l.startswith("#")).strip()
            if len(p) > 40:
                what = p[:200] + ("…" if len(p) > 200 else "")
                break
    what = what.replace("|", "/")
    checks = []
    for c, v in sorted((m.get("checks") or {}).items()):
        checks.append("%s: %s" % (c, "ALARM" if v.get("alarm") else "green"))
    first = m.get("first_run")
    rows.append("| %s | %s | %s | %s | %s | %s |" % (m["id"], ", ".join(m.get("files", [])), what, m.get("pinned_suite_with_change", ""),
                                                  "; ".join(checks), (m.get("verdict", "") + (" — first run: " + first if first else "")).replace("|", "/")))
table = ("| id | files | change (from the author's README) | pinned suite | quick checks run against the changed tree | verdict |\n"
         "|---|---|---|---|---|---|\n" + "\n".join(rows) + "\n")
p = os.path.join(ROOT, "DESIGN.md")
s = open(p).read()
a, b = "<!-- HARMLESS-TABLE-BEGIN -->", "<!-- HARMLESS-TABLE-END -->"
if a in s:
    s = s[:s.index(a) + len(a)] + "\n" + table + s[s.index(b):]
    open(p, "w").write(s)
print("%d harmless changes" % len(rows))
