#!/usr/bin/env python3
"""Hygiene scan of the Coq development: fails if any .v file (comments and
strings removed) contains Admitted / admit / Axiom / Parameter / Conjecture /
a Variable or Hypothesis outside a Section / Admit Obligations / a switched-off
kernel check / native_compute."""
import glob, os, re, sys

ROOT = os.path.dirname(os.path.dirname(os.path.abspath(__file__)))

def strip_comments(src):
    out, depth, i, n = [], 0, 0, len(src)
    instr = False
    while i < n:
        if not instr and src.startswith("(*", i):
            depth += 1; i += 2; continue
        if not instr and depth > 0 and src.startswith("*)", i):
            depth -= 1; i += 2; continue
        c = src[i]
        if depth == 0:
            if c == '"':
                instr = not instr
                out.append(' ')
            elif instr:
                out.append(' ' if c != '\n' else '\n')
            else:
                out.append(c)
        elif c == '\n':
            out.append('\n')
        i += 1
    return "".join(out)

BAD = [r"\bAdmitted\b", r"\badmit\b", r"\bAxiom\b", r"\bAxioms\b", r"\bParameter\b", r"\bParameters\b",
       r"\bConjecture\b", r"\bAdmit\s+Obligations\b", r"Unset\s+Guard", r"Unset\s+Positivity",
       r"Unset\s+Universe\s+Checking", r"bypass_check", r"type-in-type", r"impredicative-set",
       r"\bnative_compute\b", r"\bgive_up\b"]

def main():
    files = sorted(glob.glob(os.path.join(ROOT, "coq", "**", "*.v"), recursive=True))
    if len(sys.argv) > 2 and sys.argv[1] == "--only":
        # per-property mode: shared files plus this property's own files
        pid = sys.argv[2]
        files = [f for f in files if not re.match(r"C\d+_", os.path.basename(f)) or os.path.basename(f).startswith(pid + "_")]
    bad = 0
    for f in files:
        src = strip_comments(open(f).read())
        for pat in BAD:
            for m in re.finditer(pat, src):
                line = src.count("\n", 0, m.start()) + 1
                print("hygiene: %s:%d: %s" % (os.path.relpath(f, ROOT), line, m.group(0)))
                bad += 1
        # Variable / Hypothesis / Context outside a section
        stack = []
        for ln, text in enumerate(src.split("\n"), 1):
            ms = re.match(r"\s*Section\s+(\w+)", text)
            mm = re.match(r"\s*Module\s+(?:Type\s+)?(\w+)[^:=]*\.\s*$", text)
            me = re.match(r"\s*End\s+(\w+)\s*\.", text)
            if ms:
                stack.append(("S", ms.group(1)))
            elif mm:
                stack.append(("M", mm.group(1)))
            elif me and stack and stack[-1][1] == me.group(1):
                stack.pop()
            elif not any(k == "S" for k, _ in stack) and re.match(r"\s*(Variable|Variables|Hypothesis|Hypotheses|Context)\b", text):
                print("hygiene: %s:%d: %s outside a Section" % (os.path.relpath(f, ROOT), ln, text.strip()))
                bad += 1
    for f in [os.path.join(ROOT, "coq", "_CoqProject")]:
        if os.path.exists(f):
            s = open(f).read()
            for pat in ("type-in-type", "impredicative-set", "-vos", "-vok", "-noinit"):
                if pat in s:
                    print("hygiene: _CoqProject mentions", pat); bad += 1
    if bad:
        return 1
    print("hygiene: ok (%d files)" % len(files))
    return 0

if __name__ == "__main__":
    sys.exit(main())
