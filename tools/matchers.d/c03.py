"""Matcher for the one known finding of C03 (DESIGN §7 #20).

KF-C03-delete-resift-from-root: Heap.Delete swaps the victim with the last
slot, truncates and then re-sifts from the ROOT instead of from the hole.  When
the victim is neither the root nor the last slot, the element moved into the
hole can be left above a child that precedes it (or below a parent it
precedes), so a later Pop/Peek on that heap returns an element that another
held element precedes.  TestHeap_MaxHeap pins the resulting array.

The matcher is consulted only for cases whose observation equals the model's
and on which the property checker fails.  It re-plays the history (three heap
variables, as in C03_Wire.v) on a transcription of heap.go (array layout
included), checks that what it computes is what was observed, word for word,
and answers True only if
  * at least one Pop/Peek (final drains included) returned a non-extremal element, and
  * EVERY such Pop/Peek happened on a heap object that is "tainted" at that
    moment.  A heap object becomes tainted exactly when a SUCCESSFUL Delete whose
    victim was NEITHER at index 0 NOR in the last slot leaves its array out of
    heap order (type: Heap.Delete; operation: inner victim; state: the element
    moved into the hole does not fit there).  It stops being tainted as soon as
    its array is in heap order again (by luck of later Pops/Deletes), when it
    is rebuilt (Clear, Convert, FromSlice) or emptied by Meld; the result of
    Merge/Meld is a fresh, untainted heap; the receiver kept by Merge keeps its
    taint; Swap/Swap2 move the objects, taint included.  Root and last-slot
    Deletes never taint.
  * nothing else about the observation departs from the specification
    (sizes, multisets, Delete results, Merge/Meld effects are those of the
    transcription, which conserves elements).
Any other failure of C03 — e.g. a non-extremal Pop on a heap no inner Delete
has touched, a lost or duplicated element, inputs changed by Merge — therefore
stays a VIOLATION."""


def _cmp(c):
    q = lambda a: a // 10 if a >= 0 else -((-a) // 10)   # Go's truncating division
    if c == 0:
        return lambda a, b: a < b
    if c == 1:
        return lambda a, b: a > b
    if c == 2:
        return lambda a, b: q(a) < q(b)
    return lambda a, b: q(a) > q(b)


class _H:
    def __init__(self, c):
        self.d, self.c, self.taint = [], _cmp(c), False

    def up(self, i):
        d = self.d
        while True:
            p = (i - 1) // 2 if i > 0 else 0
            if not self.c(d[i], d[p]):
                break
            d[i], d[p] = d[p], d[i]
            i = p

    def down(self, n, i):
        d = self.d
        while True:
            l, r, cur = 2 * i + 1, 2 * i + 2, i
            if l < n and self.c(d[l], d[cur]):
                cur = l
            if r < n and self.c(d[r], d[cur]):
                cur = r
            if cur == i:
                return
            d[i], d[cur] = d[cur], d[i]
            i = cur

    def push(self, v):
        self.d.append(v)
        self.up(len(self.d) - 1)

    def extremal(self):
        return all(not self.c(y, self.d[0]) for y in self.d)

    def ordered(self):
        d = self.d
        return all(not self.c(d[i], d[(i - 1) // 2]) for i in range(1, len(d)))

    def settle(self):
        # a heap whose array is (again) in heap order is not tainted
        if self.taint and self.ordered():
            self.taint = False

    def pop(self):
        if not self.d:
            return 0
        v = self.d[0]
        self.d[0] = self.d[-1]
        self.d.pop()
        self.down(len(self.d), 0)
        self.settle()
        return v

    def delete(self, v):
        if v not in self.d:
            return False
        n = len(self.d)
        idx = self.d.index(v)
        self.d[idx], self.d[n - 1] = self.d[n - 1], self.d[idx]
        self.d.pop()
        self.down(n - 1, 0)
        if 0 < idx < n - 1 and not self.ordered():
            self.taint = True      # defect #20 struck: inner victim, moved element does not fit
        self.settle()
        return True

    def convert(self, c):
        self.c = _cmp(c)
        n = len(self.d)
        for i in range((n - 2) // 2 if n >= 2 else (0 if n == 1 else -1), -1, -1):
            self.down(n, i)
        self.taint = False


def _from_slice(xs, c):
    h = _H(c)
    d = h.d = list(xs)
    n = len(d)
    i = n // 2 - 1
    while i >= 0:
        while True:
            l, r = 2 * i + 1, 2 * i + 2
            if l >= n:
                break
            cur = l
            if r < n and h.c(d[r], d[l]):
                cur = r
            if not h.c(d[cur], d[i]):
                break
            d[i], d[cur] = d[cur], d[i]
            i = cur
        i -= 1
    return h


def c03_delete_resift(inp, obs):
    if len(inp) < 4 or inp[0] != 0 or inp[1] not in (0, 1, 2, 3):
        return False
    h0, h1, h2 = _H(inp[2]), _H(inp[3]), _H(inp[3])
    w, o = list(inp[4:]), list(obs)
    bad = []          # (tainted?) for every non-extremal Pop/Peek

    def take(seq, k=1):
        if len(seq) < k:
            raise ValueError
        out = seq[:k]
        del seq[:k]
        return out

    def take_list(seq):
        n = take(seq)[0]
        if n < 0:
            raise ValueError
        return take(seq, n)

    def check_root(h):
        if h.d and not h.extremal():
            bad.append(h.taint)

    try:
        while w:
            code = take(w)[0]
            if take(o)[0] != 0:
                return False
            if code == 1:
                h0.push(take(w)[0])
                h0.settle()
            elif code == 2:
                check_root(h0)
                if take(o)[0] != h0.pop():
                    return False
            elif code == 3:
                check_root(h0)
                if take(o)[0] != (h0.d[0] if h0.d else 0):
                    return False
            elif code == 4:
                h0.d, h0.taint = [], False
            elif code == 5:
                h0.convert(take(w)[0])
            elif code == 6:
                v = take(w)[0]
                ok = h0.delete(v)
                if take(o, 2) != [1 if ok else 0, 0 if ok else 1]:
                    return False
            elif code == 7:
                if take(o)[0] != len(h0.d):
                    return False
            elif code == 8:
                if take(o)[0] != (0 if h0.d else 1):
                    return False
            elif code == 9:
                if take_list(o) != sorted(h0.d):
                    return False
            elif code == 10:
                c = take(w)[0]
                h0 = _from_slice(take_list(w), c)
            elif code in (11, 12):
                t = _H(0)
                t.c = h0.c
                for v in h0.d + h1.d:
                    t.push(v)
                if code == 12:
                    h0.d, h1.d, h0.taint, h1.taint = [], [], False, False
                if take_list(o) != sorted(h0.d) or take_list(o) != sorted(h1.d):
                    return False
                h2 = h0            # the receiver stays alive (taint included after Merge)
                h0 = t
            elif code == 13:
                h0, h1 = h1, h0
            elif code == 14:
                for v in take_list(w):
                    h0.push(v)
                h0.settle()
            elif code == 15:
                h0, h2 = h2, h0
            else:
                return False
            if take(o)[0] != len(h0.d):
                return False
        for h in (h0, h1, h2):
            if take(o)[0] != 0:
                return False
            popped = take_list(o)
            if len(popped) != len(h.d):
                return False
            for v in popped:
                check_root(h)
                if h.pop() != v:
                    return False
            if take(o)[0] != 1:
                return False
        if o != [0, 0, 0, 0, 0]:
            return False
    except (ValueError, IndexError):
        return False
    return len(bad) > 0 and all(bad)


MATCHERS = {"c03_delete_resift": c03_delete_resift}
