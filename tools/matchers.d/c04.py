"""Matcher for the known finding of C04 (bstree.BsTree).

KF-C04-size-absent-delete: BsTree.Delete decrements `size` also when it reports
ErrorNotFound (bstree.go:138).  The matcher is true only for a case

  * whose history contains at least one Delete of a key that is absent at that
    moment, AND
  * whose whole observation is exactly the ordered-map observation except that
    every Size answer (per-operation and final) is lower by the number of such
    Deletes performed so far.

Any other departure from the ordered-map behaviour (a wrong Get, Delete result
or traversal, a Size off by any other amount, a Size that is right where the
defect would make it wrong) does not match and is reported as a VIOLATION.
Wire format: coq/theories/C04_Wire.v (comparator modes 0 ascending, 2/3
ascending/descending over the "extreme" keys ext_key(k), 4/5 and 6/7
ascending/descending at the string / named-string+struct instances, anything
else descending; the observation carries wire keys in every mode).

Comparators with ties (modes 8/9 a/2, 10/11 a%3, 12/13 case-insensitive strings
= a/4 on the wire; Go's truncating / and %): the ordered map is keyed on the
comparator's equivalence class and an entry keeps the key it was created with.
Non-strict comparators (14 a<=b, 15 a>=b): the reference is the bag machine
C04_ModelTies.run_bag (nothing is ever found, every Upsert adds an entry before
the first entry it is <= to); every Delete there answers ErrorNotFound."""


def _ext_key(k):
    """mirror of C04_Wire.ext_key / harness c04Ext"""
    if not (0 <= k < 5000):
        return k
    r = k % 1000
    return [r - 500, 2**63 - 1 - 999 + r, -2**63 + r, 2**62 - 500 + r, -2**62 - 500 + r][k // 1000]


def _tquot(a, n):
    """Go's truncating division / Z.quot"""
    q = abs(a) // n
    return q if a >= 0 else -q


def _c04_bag(inp):
    """modes 14, 15: mirror of C04_ModelTies.run_bag"""
    mode = inp[0]
    le = (lambda a, b: a <= b) if mode == 14 else (lambda a, b: a >= b)
    m = []
    fails = 0
    spec, dfct = [], []

    def trav():
        out = [len(m)]
        for k, v in m:
            out += [k, v]
        return out

    for i in range(1, len(inp), 3):
        op, a, b = inp[i], inp[i + 1], inp[i + 2]
        if op == 0:
            j = 0
            while j < len(m) and not le(a, m[j][0]):
                j += 1
            m.insert(j, (a, b))
            spec += [0]; dfct += [0]
        elif op == 1:
            fails += 1
            spec += [1, 1]; dfct += [1, 1]
        elif op == 2:
            spec += [1, 1]; dfct += [1, 1]
        elif op == 3:
            spec += [len(m)]; dfct += [len(m) - fails]
        elif op == 4:
            r = trav()
            spec += r; dfct += r
        else:
            return None
    spec += [len(m)] + trav()
    dfct += [len(m) - fails] + trav()
    return spec, dfct, fails


def _c04_ties(inp):
    """modes 8..13: the ordered map on the comparator's equivalence classes; an entry keeps its first key"""
    mode = inp[0]
    if mode in (8, 9):
        cls = lambda k: _tquot(k, 2)
    elif mode in (10, 11):
        cls = lambda k: k - 3 * _tquot(k, 3)
    else:
        cls = lambda k: _tquot(k, 4)
    desc = mode % 2 == 1
    m = {}
    fails = 0
    spec, dfct = [], []

    def trav():
        cs = sorted(m, reverse=desc)
        out = [len(cs)]
        for c in cs:
            out += [m[c][0], m[c][1]]
        return out

    for i in range(1, len(inp), 3):
        op, a, b = inp[i], inp[i + 1], inp[i + 2]
        c = cls(a)
        if op == 0:
            m[c] = (m[c][0] if c in m else a, b)
            spec += [0]; dfct += [0]
        elif op == 1:
            if c in m:
                del m[c]
                r = [0]
            else:
                fails += 1
                r = [1, 1]
            spec += r; dfct += r
        elif op == 2:
            r = [0, m[c][0], m[c][1]] if c in m else [1, 1]
            spec += r; dfct += r
        elif op == 3:
            spec += [len(m)]; dfct += [len(m) - fails]
        elif op == 4:
            r = trav()
            spec += r; dfct += r
        else:
            return None
    spec += [len(m)] + trav()
    dfct += [len(m) - fails] + trav()
    return spec, dfct, fails


def _c04_expected(inp):
    """(spec observation, observation with the defect, number of failed deletes)"""
    if not inp or (len(inp) - 1) % 3 != 0:
        return None
    mode = inp[0]
    if mode in (14, 15):
        return _c04_bag(inp)
    if 8 <= mode <= 13:
        return _c04_ties(inp)
    desc = mode not in (0, 2, 4, 6)
    order = _ext_key if mode in (2, 3) else (lambda k: k)
    m = {}
    fails = 0
    spec, dfct = [], []

    def trav():
        ks = sorted(m, key=order, reverse=desc)
        out = [len(ks)]
        for k in ks:
            out += [k, m[k]]
        return out

    for i in range(1, len(inp), 3):
        op, a, b = inp[i], inp[i + 1], inp[i + 2]
        if op == 0:
            m[a] = b
            r = [0]
            spec += r; dfct += r
        elif op == 1:
            if a in m:
                del m[a]
                r = [0]
            else:
                fails += 1
                r = [1, 1]
            spec += r; dfct += r
        elif op == 2:
            r = [0, a, m[a]] if a in m else [1, 1]
            spec += r; dfct += r
        elif op == 3:
            spec += [len(m)]; dfct += [len(m) - fails]
        elif op == 4:
            r = trav()
            spec += r; dfct += r
        else:
            return None
    spec += [len(m)] + trav()
    dfct += [len(m) - fails] + trav()
    return spec, dfct, fails


def c04_size_absent_delete(inp, obs):
    e = _c04_expected(list(inp))
    if e is None:
        return False
    spec, dfct, fails = e
    return fails > 0 and list(obs) == dfct and list(obs) != spec


MATCHERS = {"c04_size_absent_delete": c04_size_absent_delete}
