"""Matcher for the known finding of C04 (bstree.BsTree).

KF-C04-size-absent-delete: BsTree.Delete decrements `size` also when it reports
ErrorNotFound (bstree.go:138).  The matcher is true only for a case

  * whose history contains at least one Delete of a key that is absent at that
    moment, AND
  * whose whole observation is exactly the ordered-map observation except that
    every Size answer (per-operation and final) is lower by the number of such
    Deletes performed so far.

Any other departure from the ordered-map behaviour (a wrong Get, Delete result
or traversal, a Size off by any other amount, a Size that is right where the
defect would make it wrong) does not match and is reported as a VIOLATION.
Wire format: coq/theories/C04_Wire.v (comparator modes 0 ascending, 2/3
ascending/descending over the "extreme" keys ext_key(k), 4/5 and 6/7
ascending/descending at the string / named-string+struct instances, anything
else descending; the observation carries wire keys in every mode)."""


def _ext_key(k):
    """mirror of C04_Wire.ext_key / harness c04Ext"""
    if not (0 <= k < 5000):
        return k
    r = k % 1000
    return [r - 500, 2**63 - 1 - 999 + r, -2**63 + r, 2**62 - 500 + r, -2**62 - 500 + r][k // 1000]


def _c04_expected(inp):
    """(spec observation, observation with the defect, number of failed deletes)"""
    if not inp or (len(inp) - 1) % 3 != 0:
        return None
    mode = inp[0]
    desc = mode not in (0, 2, 4, 6)
    order = _ext_key if mode in (2, 3) else (lambda k: k)
    m = {}
    fails = 0
    spec, dfct = [], []

    def trav():
        ks = sorted(m, key=order, reverse=desc)
        out = [len(ks)]
        for k in ks:
            out += [k, m[k]]
        return out

    for i in range(1, len(inp), 3):
        op, a, b = inp[i], inp[i + 1], inp[i + 2]
        if op == 0:
            m[a] = b
            r = [0]
            spec += r; dfct += r
        elif op == 1:
            if a in m:
                del m[a]
                r = [0]
            else:
                fails += 1
                r = [1, 1]
            spec += r; dfct += r
        elif op == 2:
            r = [0, a, m[a]] if a in m else [1, 1]
            spec += r; dfct += r
        elif op == 3:
            spec += [len(m)]; dfct += [len(m) - fails]
        elif op == 4:
            r = trav()
            spec += r; dfct += r
        else:
            return None
    spec += [len(m)] + trav()
    dfct += [len(m) - fails] + trav()
    return spec, dfct, fails


def c04_size_absent_delete(inp, obs):
    e = _c04_expected(list(inp))
    if e is None:
        return False
    spec, dfct, fails = e
    return fails > 0 and list(obs) == dfct and list(obs) != spec


MATCHERS = {"c04_size_absent_delete": c04_size_absent_delete}
