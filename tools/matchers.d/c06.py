"""Narrow matcher for the known finding KF-C06-lstack-pop (DESIGN §7 #27).

The defect: stack.LStack.Pop goes through list.DList.Pop, which returns a copy
of the SECOND-TO-LAST node (and, for a single node, returns a zero node and
removes nothing).  Consequences, all one finding:
  (a) Pop on a linked stack holding >= 2 elements removes the top but RETURNS
      the element below it; Pop of the last element returns the zero value;
  (b) the node of that last element is never removed (a "ghost" at the bottom of
      the list): afterwards Peek on the logically empty stack returns the ghost,
      Search(ghost value) reports true, and a Pop that removes the only real
      element returns the ghost (which is again "the element below the top").

The exact behaviour is the machine `lsd_step` of coq/theories/C06_Model.v (proved
equal to the transcription of the code for ALL histories: C06_lstack_partial).
This file re-implements that machine and the reference LIFO in a few lines.

The matcher is true for a case iff
  1. the implementation is the LINKED stack (cfg word = 1, 3, 5, 7, 9 or 11: impl 1
     at any of the six element types; for 7, 9, 11 Search compares with go_eq), the input is a
     well-formed operation list, and
  2. the WHOLE observation (every operation, then the end-of-case Size / pop-all
     / Size, Pop, Size, Peek) is exactly what the defect machine produces — so
     every deviation from the LIFO in the case, not only the first one, is the
     Pop value / the ghost of the never-removed last node — and
  3. it differs from what the LIFO produces (there is something to attribute).
Everything else — any deviation of the slice-backed stack, a wrong Size, a
Pop/Peek/Search answer of another shape anywhere in the case, a panic marker, a
malformed or truncated observation — is NOT matched and is reported as a
VIOLATION.  (./check additionally consults matchers only for cases whose
observation equals the Coq model's.)"""

PUSH, POP, PEEK, SEARCH, SIZE = 1, 2, 3, 4, 5
CAP = 4096

# Element types whose == is not the identity of values (cfg 7, 9, 11: inst 3..5 of
# harness/c05_nan.go): the integers are codes, Go's == on them is go_eq of
# coq/theories/C05_ModelNaN.v, re-implemented here.
C_NAN, C_NAN2, C_NZ, C_U1, C_U2, C_M1 = -999999999, -999999998, -999999997, -999999996, -999999995, -999999994


def _go_eq(a, b):
    if a in (C_NAN, C_NAN2) or b in (C_NAN, C_NAN2):
        return False
    if a in (C_U1, C_U2, C_M1) or b in (C_U1, C_U2, C_M1):
        return False
    return (0 if a == C_NZ else a) == (0 if b == C_NZ else b)


def _plain_eq(a, b):
    return a == b


def _observe(t, ops, defect, eq=_plain_eq):
    """observation of the reference LIFO (defect=False) or of the LIFO with the
    known defect (defect=True) started at [t]; top of the stack = end of the list"""
    stack = [t]
    ghost = None                          # value of the node a last-element Pop left behind
    out = []

    def step(op, arg):
        nonlocal ghost
        if op == PUSH:
            stack.append(arg)
        elif op == POP:
            if not stack:
                out.append(0)
                return
            x = stack.pop()
            if not defect:
                out.append(x)
            elif stack:
                out.append(stack[-1])     # the element below the top
            elif ghost is not None:
                out.append(ghost)
            else:
                out.append(0)
                ghost = x                 # the last node stays behind
        elif op == PEEK:
            if stack:
                out.append(stack[-1])
            else:
                out.append(ghost if (defect and ghost is not None) else 0)
        elif op == SEARCH:
            found = any(eq(y, arg) for y in stack) or (defect and ghost is not None and eq(ghost, arg))
            out.append(1 if found else 0)
        elif op == SIZE:
            out.append(len(stack))
        else:
            raise ValueError(op)

    for op, arg in ops:
        step(op, arg)
    n = len(stack)
    step(SIZE, 0)
    for _ in range(min(n, CAP)):
        step(POP, 0)
    for op in (SIZE, POP, SIZE, PEEK):
        step(op, 0)
    return out


def c06_lstack_pop(inp, obs):
    if len(inp) < 2 or inp[0] not in (1, 3, 5, 7, 9, 11):
        return False                      # only the linked stack (cfg = impl + 2*inst, impl 1; any element type)
    eq = _go_eq if inp[0] >= 6 else _plain_eq
    t = inp[1]
    rest = inp[2:]
    if len(rest) % 2:
        return False
    ops = [(rest[i], rest[i + 1]) for i in range(0, len(rest), 2)]
    try:
        with_defect = _observe(t, ops, True, eq)
        lifo = _observe(t, ops, False, eq)
    except ValueError:
        return False                      # unknown operation code
    obs = list(obs)
    return obs == with_defect and obs != lifo


MATCHERS = {"c06_lstack_pop": c06_lstack_pop}
