"""Narrow matcher for the known finding KF-C06-lstack-pop (DESIGN §7 #27).

The defect: stack.LStack.Pop goes through list.DList.Pop, which returns a copy
of the SECOND-TO-LAST node (and, for a single node, returns a zero node and
removes nothing).  Consequences, all one finding:
  (a) Pop on a linked stack holding >= 2 elements removes the top but RETURNS
      the element below it; Pop of the last element returns the zero value;
  (b) the node of that last element is never removed (a "ghost" at the bottom of
      the list): afterwards Peek on the logically empty stack returns the ghost,
      Search(ghost value) reports true, and a Pop that removes the only real
      element returns the ghost (which is again "the element below the top").

The matcher is true for a case iff
  1. the implementation is the LINKED stack (cfg word = 1), and
  2. walking the case's operations (the end-of-case Size / pop-all / Size, Pop,
     Size, Peek included) next to a reference LIFO, the FIRST observable that
     differs from the LIFO's is
       - the value of a Pop executed on a non-empty stack, and it is exactly the
         element below the top (the ghost if nothing real is below and a ghost
         exists, else the zero value), or
       - the value of a Peek on the empty stack while a ghost exists, and it is
         the ghost's value, or
       - the result of Search(x) while a ghost exists, x == ghost value, the LIFO
         says false and the observation says true.
Everything else — any deviation of the slice-backed stack, a wrong Size, a
Pop/Peek/Search deviation of another shape, a panic marker, a malformed
observation — is NOT matched and is reported as a VIOLATION.  (./check consults
matchers only for cases whose observation equals the model's; a change of the
defective behaviour to a different wrong answer is a model mismatch and is
reported regardless of this matcher.)"""

PUSH, POP, PEEK, SEARCH, SIZE = 1, 2, 3, 4, 5
CAP = 4096


def c06_lstack_pop(inp, obs):
    if len(inp) < 2 or inp[0] != 1:
        return False                      # only the linked stack
    t = inp[1]
    rest = inp[2:]
    if len(rest) % 2:
        return False
    ops = [(rest[i], rest[i + 1]) for i in range(0, len(rest), 2)]
    stack = [t]                           # reference LIFO, top at the end
    ghost = None                          # value of the node a last-element Pop left behind
    pos = 0

    def take():
        nonlocal pos
        if pos >= len(obs):
            raise IndexError
        v = obs[pos]
        pos += 1
        return v

    def step(op, arg):
        """returns None if the observable equals the LIFO's, else True/False =
        'this first deviation is the known finding'"""
        nonlocal ghost
        if op == PUSH:
            stack.append(arg)
            return None
        if op == POP:
            got = take()
            if not stack:
                return None if got == 0 else False
            want = stack.pop()
            if len(stack) >= 1:
                below = stack[-1]
            elif ghost is not None:
                below = ghost
            else:
                below = 0
                ghost = want              # the last node stays behind
            if got == want:
                return None
            return got == below
        if op == PEEK:
            got = take()
            want = stack[-1] if stack else 0
            if got == want:
                return None
            return (not stack) and ghost is not None and got == ghost
        if op == SEARCH:
            got = take()
            want = 1 if arg in stack else 0
            if got == want:
                return None
            return ghost is not None and arg == ghost and want == 0 and got == 1
        if op == SIZE:
            got = take()
            return None if got == len(stack) else False
        return False

    try:
        for op, arg in ops:
            r = step(op, arg)
            if r is not None:
                return r
        n = obs[pos] if pos < len(obs) else None
        r = step(SIZE, 0)
        if r is not None:
            return r
        tail = [(POP, 0)] * max(0, min(n, CAP)) + [(SIZE, 0), (POP, 0), (SIZE, 0), (PEEK, 0)]
        for op, arg in tail:
            r = step(op, arg)
            if r is not None:
                return r
    except IndexError:
        return False
    return False                          # no deviation from the LIFO (or trailing garbage): not ours


MATCHERS = {"c06_lstack_pop": c06_lstack_pop}
