"""Narrow matcher for the known finding KF-C14-omitby-nan.

The defect: gogu.OmitBy removes the qualifying entries with delete(collection, k);
on a key that is not equal to itself (float64 NaN) delete is a no-op, so a
qualifying entry stored under NaN stays in the returned map.  Everything else
about OmitBy is right.  The exact behaviour is [gomit_by_asfound] of
coq/theories/C14_ModelNaN.v, characterised for all maps by C14_nan_omit_by_partial:
    result = entries with (fn false) or (fn true and key != key).

The matcher is true for a case iff
  1. the helper is OmitBy at map[float64]float64 (wire fn 107: c a map), the input
     is well formed, and
  2. EVERY recorded outcome is exactly the canonical encoding of
         { (k, v) in m | not fn(k, v)  or  k is NaN }
     (entries as code pairs sorted lexicographically), and
  3. that differs from the correct result { (k, v) in m | not fn(k, v) }, i.e. at
     least one entry under NaN qualifies (there is something to attribute).
Any other deviation of OmitBy — a missing or additional entry under an ordinary
key, a changed value, a NaN entry that does not qualify gone, a qualifying NaN entry
dropped in one outcome and kept in another, a malformed observation — is NOT
matched and is reported as a VIOLATION.  (./check additionally consults matchers
only for cases whose observation equals the Coq model's.)

The callback family is the one of harness/c14nan.go / C14_Wire.nkvpred."""

NAN = -999999999


def _kvpred(c, a):
    def num(x):
        return x != NAN
    if c == 0:
        return lambda k, v: True
    if c == 1:
        return lambda k, v: False
    if c == 2:
        return lambda k, v: num(k) and num(a) and k < a
    if c == 3:
        return lambda k, v: num(v) and num(a) and v == a
    if c == 4:
        return lambda k, v: num(k) and num(v) and (k + v) % 2 == 0
    if c == 5:
        return lambda k, v: num(k) and num(a) and k == a
    if c == 6:
        return lambda k, v: not num(k)
    return lambda k, v: not num(v)


def c14_omitby_nan(inp, obs):
    inp, obs = list(inp), list(obs)
    if len(inp) < 4 or inp[0] != 107:
        return False
    c, a, n = inp[1], inp[2], inp[3]
    flat = inp[4:]
    if n < 0 or n % 2 != 0 or len(flat) != n:
        return False
    entries = [(flat[i], flat[i + 1]) for i in range(0, n, 2)]
    # a Go map: ordinary keys are distinct
    ordinary = [k for k, _ in entries if k != NAN]
    if len(set(ordinary)) != len(ordinary):
        return False
    fn = _kvpred(c, a)
    correct = sorted(e for e in entries if not fn(*e))
    asfound = sorted(e for e in entries if not fn(*e) or e[0] == NAN)
    if asfound == correct:
        return False
    want = [x for e in asfound for x in e]
    want = [len(want)] + want
    # observation: count, then per outcome a length-prefixed blob
    if not obs or obs[0] < 1:
        return False
    pos, count = 1, obs[0]
    for _ in range(count):
        if pos >= len(obs):
            return False
        ln = obs[pos]
        blob = obs[pos + 1: pos + 1 + ln]
        if ln < 0 or len(blob) != ln or blob != want:
            return False
        pos += 1 + ln
    return pos == len(obs)


MATCHERS = {"c14_omitby_nan": c14_omitby_nan}
