"""Per-property configuration of ./check.  `props` are the theorem files
re-checked on every run (relative to coq/)."""

TRUSTED_BASE = [
    "Coq 8.16.1 kernel and coqc; vm_compute (the VM) in examples/refutation witnesses and the in-Coq cross-check; native_compute not used",
    "extraction: Require Extraction + ExtrOcamlBasic only (no Extract Constant / Extract Inductive of our own); OCaml 4.13.1; runner/driver.ml (decimal text <-> binary Z); cross-checked per run by re-evaluating a sample of cases inside Coq",
    "the Go correspondence harness /verif/harness (generators, projection of observables onto the integer wire format)",
    "hand-written model: faithful to the Go source only as far as the correspondence check reaches (exhaustive small scopes + seeded random)",
    "Go compiler/runtime, and the standard-library packages the code calls, are modelled not verified",
]

HOOK_COMMITS = ["19f1632"]

CONFIG = {
    "C01": {
        "custom": "c01",
        "props": ["theories/C01_Props.v"],
        "technique": "Coq theorem (Lock.v: well-bracketed RWMutex programs are race-, panic- and deadlock-free under every interleaving) applied by computation to lock/effect skeletons regenerated from the Go source by a translator on every run; Go race detector runs as search for a failing schedule",
        "level_text": "PARTIAL. Proved in Coq for all numbers of goroutines, all call sequences and all interleavings: a program whose threads are sequences of paths of checked skeletons has no data race on guarded state, no unlock-of-unlocked panic, no deadlock, and hands out no reference to mutable guarded data. The skeletons are regenerated from the current Go source on every run by harness/cmd/skel and the obligation check(sk)=true is re-proved by vm_compute for every exported method. Not proved: that the translator's effect analysis over-approximates the real accesses (validated by running all method pairs under the race detector), Go's DRF-SC guarantee and sync.RWMutex; callbacks are assumed not to re-enter the container.",
        "level_note": "trusted: Coq kernel + vm_compute; the translator (go/parser, go/types, my effect analysis: derived/fresh/immutable classification, callee summaries); the RWMutex semantics written in Lock.v; Go memory model (race-free programs are sequentially consistent); external calls assumed terminating, non-re-entrant and not touching guarded state.",
        "assumptions": ["function values / interface methods called by a container method (comparators, Traverse callbacks, the trie's result queue) terminate, do not re-enter the same instance and do not touch its guarded fields",
                        "writer preference of sync.RWMutex is not modelled (cannot create a race; cannot create a deadlock without nested acquisition, which the discipline excludes)",
                        "'the instance stays usable afterwards' is checked by the harness's post-scenario sanity sequence and follows from the sequential properties C03-C09 once no call panics or blocks"],
        "trusted_base": ["translator harness/cmd/skel (Go): go/parser + go/types with the stdlib source importer; effect analysis rules documented in its header",
                         "Go race detector, used only to search for failing schedules and to validate the translator's skeletons"],
    },
    "C13": {
        "props": ["theories/C13_Props.v"],
        "level_text": "Every clause of C13 is a Coq theorem over all slices/arguments (unbounded) about a Gallina transcription of slice.go/find.go/math.go/generic.go/range.go; the transcription is tied to the code on every run by running it (extracted, and a sample inside Coq) against the real functions on an exhaustive small scope plus seeded random inputs.",
        "level_note": "trusted: Coq kernel, extraction (ExtrOcamlBasic), the Go harness, faithfulness of the hand model beyond the explored scope; Go int as unbounded Z; floats not modelled.",
        "assumptions": ["Go int is modelled by unbounded Z (inputs far from 2^63); Sum/Abs in a w-bit type are modelled with explicit wrap-around and exercised at int8",
                        "floats are not modelled (IEEE addition order is the definition of Sum for floats)"],
    },
}

# wire inputs made of a fixed header followed by fixed-width operation records can be shrunk by ./check
# (delta debugging over the records) before a replay is written
SHRINK = {"C04": (1, 3), "C05": (2, 2), "C06": (2, 2), "C07": (2, 3), "C10": (0, 3), "C19": (2, 3), "C08": (4, 5)}

# per-property overrides/additions: tools/propcfg.d/Cxx.json (same keys as above)
import glob as _glob, json as _json, os as _os
for _f in sorted(_glob.glob(_os.path.join(_os.path.dirname(_os.path.abspath(__file__)), "propcfg.d", "C*.json"))):
    _pid = _os.path.basename(_f)[:-5]
    _d = _json.load(open(_f))
    CONFIG.setdefault(_pid, {}).update(_d)
    CONFIG[_pid].setdefault("props", ["theories/%s_Props.v" % _pid])
for _pid, (_h, _w) in SHRINK.items():
    CONFIG.setdefault(_pid, {}).setdefault("shrink", {"header": _h, "width": _w})
