"""Per-property configuration of ./check.  `props` are the theorem files
re-checked on every run (relative to coq/)."""

TRUSTED_BASE = [
    "Coq 8.16.1 kernel and coqc; vm_compute (the VM) in examples/refutation witnesses and the in-Coq cross-check; native_compute not used",
    "extraction: Require Extraction + ExtrOcamlBasic only (no Extract Constant / Extract Inductive of our own); OCaml 4.13.1; runner/driver.ml (decimal text <-> binary Z); cross-checked per run by re-evaluating a sample of cases inside Coq",
    "the Go correspondence harness /verif/harness (generators, projection of observables onto the integer wire format)",
    "hand-written model: faithful to the Go source only as far as the correspondence check reaches (exhaustive small scopes + seeded random)",
    "Go compiler/runtime, and the standard-library packages the code calls, are modelled not verified",
]

HOOK_COMMITS = []

CONFIG = {
    "C13": {
        "props": ["theories/C13_Props.v"],
        "level_text": "Every clause of C13 is a Coq theorem over all slices/arguments (unbounded) about a Gallina transcription of slice.go/find.go/math.go/generic.go/range.go; the transcription is tied to the code on every run by running it (extracted, and a sample inside Coq) against the real functions on an exhaustive small scope plus seeded random inputs.",
        "level_note": "trusted: Coq kernel, extraction (ExtrOcamlBasic), the Go harness, faithfulness of the hand model beyond the explored scope; Go int as unbounded Z; floats not modelled.",
        "assumptions": ["Go int is modelled by unbounded Z (inputs far from 2^63); Sum/Abs in a w-bit type are modelled with explicit wrap-around and exercised at int8",
                        "floats are not modelled (IEEE addition order is the definition of Sum for floats)"],
    },
}

# per-property overrides/additions: tools/propcfg.d/Cxx.json (same keys as above)
import glob as _glob, json as _json, os as _os
for _f in sorted(_glob.glob(_os.path.join(_os.path.dirname(_os.path.abspath(__file__)), "propcfg.d", "C*.json"))):
    _pid = _os.path.basename(_f)[:-5]
    _d = _json.load(open(_f))
    CONFIG.setdefault(_pid, {}).update(_d)
    CONFIG[_pid].setdefault("props", ["theories/%s_Props.v" % _pid])
