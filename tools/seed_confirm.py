#!/usr/bin/env python3
"""seed_confirm.py <PID> <n> <scratch-worktree> <dir with patch.diff, demo_test.go, README.md> [check-PID ...]

Self-test helper (never referenced from MANIFEST.json).  Confirms a seeded change in a scratch
worktree of /repo and records it under /verif/seeded/<PID>-<n>/:
  1. the demonstration passes on the unchanged worktree,
  2. with the change applied the tree builds and the pinned suite passes (the two known-flaky tests
     Example_after / TestFunc_Debounce and the inherently racy TestBSTree_Concurrency are retried),
  3. the demonstration fails with the change,
  4. ./check <check-PID> (default: PID) is run against the changed worktree (VERIF_REPO, VERIF_SCRATCH)
     and its verdict recorded.
The worktree is restored afterwards."""
import json, os, re, shutil, subprocess, sys, time

ROOT = os.path.dirname(os.path.dirname(os.path.abspath(__file__)))
RUN_ROOT = os.environ.get("VERIF_ROOT_OVERRIDE", ROOT)   # a frozen copy of /verif, so that concurrent edits do not interfere
ENV = dict(os.environ, GOFLAGS="-mod=mod", GOPROXY="off", GOSUMDB="off", GOTOOLCHAIN="local")

def sh(cmd, cwd, timeout=3600, env=ENV):
    p = subprocess.run(cmd, cwd=cwd, env=env, shell=isinstance(cmd, str), stdout=subprocess.PIPE, stderr=subprocess.STDOUT, text=True, timeout=timeout)
    return p.returncode, p.stdout

def main():
    pid, n, wt, d = sys.argv[1:5]
    checks = sys.argv[5:] or [pid]
    head = subprocess.check_output(["git", "-C", "/repo", "rev-parse", "HEAD"], text=True).strip()
    if os.environ.get("SEED_HEAD"):     # the commit the change was written against, when /repo has moved on since
        head = subprocess.check_output(["git", "-C", "/repo", "rev-parse", os.environ["SEED_HEAD"]], text=True).strip()
    sh(["git", "checkout", "-q", "--detach", head], wt)
    sh("git checkout -q -- . && git clean -fdq -e TASK.md -e TASK2.md -e OUT", wt)
    demo = open(os.path.join(d, "demo_test.go")).read()
    pkg = re.search(r"(?m)^package\s+(\w+)", demo).group(1)
    pkgdir = "." if pkg in ("gogu", "gogu_test") else pkg.replace("_test", "")
    dest = os.path.join(wt, pkgdir, "zz_seed_demo_test.go")
    out_aside = os.path.join("/tmp", "seedout.%s.%s.%d" % (pid, n, os.getpid()))
    if os.path.isdir(os.path.join(wt, "OUT")):
        shutil.move(os.path.join(wt, "OUT"), out_aside)
        d = d.replace(os.path.join(wt, "OUT"), out_aside)
    meta = {"property": pid, "seed": "%s-%s" % (pid, n), "repo_head": head, "confirmed_at": time.strftime("%Y-%m-%dT%H:%M:%SZ", time.gmtime())}
    def run_demo():
        shutil.copy(os.path.join(d, "demo_test.go"), dest)
        rc, out = sh(["go", "test", "-vet=off", "-count=1", "-run", "Demo|demo", "./" + pkgdir], wt, timeout=1200)
        os.remove(dest)
        return rc, out
    try:
        rc, out = run_demo()
        meta["demo_on_unchanged_tree"] = "passes" if rc == 0 and "no tests to run" not in out else "DOES NOT PASS"
        rc, out = sh(["git", "apply", os.path.join(d, "patch.diff")], wt)
        if rc != 0:
            print("patch does not apply:", out); meta["patch_applies"] = False
            return meta
        rc, out = sh("go build ./... ", wt)
        meta["builds_with_change"] = rc == 0
        suite = "fails"
        for attempt in range(3):
            rc, out = sh("go test -vet=off -count=1 ./...", wt, timeout=1800)
            bad = [l for l in out.split("\n") if l.startswith("--- FAIL")]
            bad = [l for l in bad if not re.search(r"Example_after|TestFunc_Debounce|TestBSTree_Concurrency", l)]
            if rc == 0 or not bad:
                suite = "passes" if rc == 0 else "passes (only known-flaky tests failed: %s)" % ", ".join(sorted(set(re.findall(r"--- FAIL: (\S+)", out))))
                break
            suite = "fails: " + "; ".join(bad)[:300]
        meta["pinned_suite_with_change"] = suite
        rc, out = run_demo()
        if rc == 0:
            # demonstrations of data races need the race detector
            shutil.copy(os.path.join(d, "demo_test.go"), dest)
            rc, out = sh(["go", "test", "-race", "-vet=off", "-count=1", "-run", "Demo|demo", "./" + pkgdir], wt, timeout=1800)
            os.remove(dest)
            meta["demo_needs_race_detector"] = True
        meta["demo_with_change"] = "fails" if rc != 0 else "DOES NOT FAIL"
        meta["demo_failure_excerpt"] = "\n".join([l for l in out.split("\n") if l.strip()][:6])[:800]
        meta["checks"] = {}
        for c in checks:
            t0 = time.time()
            rc, out = sh(["./check", c, "--tier", os.environ.get("TIER", "quick")], RUN_ROOT, timeout=3600,
                         env=dict(ENV, VERIF_REPO=wt, VERIF_SCRATCH="seed"))
            viol = [l for l in out.split("\n") if l.startswith("VIOLATION")]
            viol.sort(key=lambda l: "no-failing-input-found" in l)      # a concrete replay first
            detail = ""
            if viol:
                m = re.search(re.escape(viol[0]) + r"\n\s+\(([^\n]*)", out)
                if m:
                    detail = m.group(1)[:500]
            meta["checks"][c] = {"exit": rc, "caught": rc == 1 and bool(viol), "violation_line": viol[0] if viol else "",
                                 "detail": detail, "wall_s": round(time.time() - t0, 1)}
    finally:
        sh("git checkout -q -- . && git clean -fdq -e TASK.md -e TASK2.md -e OUT", wt)
        if os.path.isdir(out_aside):
            shutil.move(out_aside, os.path.join(wt, "OUT"))
            d = d.replace(out_aside, os.path.join(wt, "OUT"))
    sd = os.path.join(ROOT, "seeded", "%s-%s" % (pid, n))
    os.makedirs(sd, exist_ok=True)
    shutil.copy(os.path.join(d, "patch.diff"), os.path.join(sd, "patch.diff"))
    shutil.copy(os.path.join(d, "demo_test.go"), os.path.join(sd, "demo_test.go.txt"))
    readme = os.path.join(d, "README.md")
    if os.path.exists(readme):
        txt = open(readme).read()
        shutil.copy(readme, os.path.join(sd, "README.md"))
        m = re.search(r"(?is)(needs|manifest)[^\n]*\n(.{0,600})", txt)
        meta["needs_in_order_to_manifest"] = (m.group(0)[:600] if m else "see README.md")
    meta["demo_placement"] = "copy demo_test.go.txt to %s/zz_seed_demo_test.go and run: go test -vet=off -count=1 -run 'Demo|demo' ./%s" % (pkgdir, pkgdir)
    meta["what_was_run"] = ["go test (demo) on the unchanged worktree", "git apply patch.diff", "go build ./... && go test -vet=off -count=1 ./...",
                            "go test (demo) with the change"] + ["VERIF_REPO=<worktree> ./check %s --tier quick" % c for c in checks]
    json.dump(meta, open(os.path.join(sd, "meta.json"), "w"), indent=1)
    return meta

if __name__ == "__main__":
    m = main()
    print(json.dumps({k: m.get(k) for k in ("seed", "demo_on_unchanged_tree", "pinned_suite_with_change", "demo_with_change")}))
    for c, v in (m.get("checks") or {}).items():
        print("  check %s: caught=%s %s %s" % (c, v["caught"], v["violation_line"], v["detail"][:200]))
