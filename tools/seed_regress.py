#!/usr/bin/env python3
"""seed_regress.py <scratch-worktree> [seed-id ...]   (env JOBS: not used; run two instances on disjoint id lists for parallelism)

Self-test helper (never referenced from MANIFEST.json).  Re-runs the CURRENT quick checks against every recorded
seeded change (seeded/<id>/patch.diff) in a scratch worktree of /repo at /repo's HEAD and records, in
seeded/<id>/meta.json under "regression", whether each check that caught the change when it was confirmed still
catches it.  Patches that no longer apply at HEAD (the site was since repaired by a fix: commit) are recorded as
such.  VERIF_ROOT_OVERRIDE=<dir> runs the checks of a frozen copy of /verif."""
import glob, json, os, subprocess, sys, time

ROOT = os.path.dirname(os.path.dirname(os.path.abspath(__file__)))
RUN_ROOT = os.environ.get("VERIF_ROOT_OVERRIDE", ROOT)
ENV = dict(os.environ, GOFLAGS="-mod=mod", GOPROXY="off", GOSUMDB="off", GOTOOLCHAIN="local")

def sh(cmd, cwd, timeout=3600, env=ENV):
    p = subprocess.run(cmd, cwd=cwd, env=env, shell=isinstance(cmd, str), stdout=subprocess.PIPE, stderr=subprocess.STDOUT, text=True, timeout=timeout)
    return p.returncode, p.stdout

def main():
    wt = sys.argv[1]
    ids = sys.argv[2:] or sorted(os.path.basename(os.path.dirname(f)) for f in glob.glob(os.path.join(ROOT, "seeded", "*", "meta.json")))
    head = subprocess.check_output(["git", "-C", "/repo", "rev-parse", "HEAD"], text=True).strip()
    verif_head = subprocess.check_output(["git", "-C", ROOT, "rev-parse", "--short", "HEAD"], text=True).strip()
    sh(["git", "checkout", "-q", "--detach", head], wt)
    for sid in ids:
        mp = os.path.join(ROOT, "seeded", sid, "meta.json")
        meta = json.load(open(mp))
        sh("git checkout -q -- . && git clean -fdq", wt)
        reg = {"repo_head": head, "verif_commit": verif_head, "at": time.strftime("%Y-%m-%dT%H:%M:%SZ", time.gmtime()), "checks": {}}
        rc, out = sh(["git", "apply", os.path.join(ROOT, "seeded", sid, "patch.diff")], wt)
        if rc != 0:
            reg["patch_applies"] = False
            reg["note"] = "the patch no longer applies at this HEAD: " + out.strip()[:200]
        else:
            reg["patch_applies"] = True
            tag = "reg" + sid.replace("-", "")
            for c, old in (meta.get("checks") or {}).items():
                t0 = time.time()
                rc, out = sh(["./check", c, "--tier", "quick"], RUN_ROOT, env=dict(ENV, VERIF_REPO=wt, VERIF_SCRATCH=tag))
                viol = [l for l in out.split("\n") if l.startswith("VIOLATION")]
                viol.sort(key=lambda l: "no-failing-input-found" in l)
                reg["checks"][c] = {"caught": rc == 1 and bool(viol), "violation_line": viol[0] if viol else "",
                                    "caught_when_confirmed": bool(old.get("caught")), "wall_s": round(time.time() - t0, 1)}
                subprocess.run(["rm", "-rf", os.path.join(RUN_ROOT, "work", c + "." + tag)])
        meta["regression"] = reg
        json.dump(meta, open(mp, "w"), indent=1)
        print(sid, "applies" if reg["patch_applies"] else "DOES-NOT-APPLY",
              " ".join("%s:%s%s" % (c, "caught" if v["caught"] else "MISSED", "" if v["caught"] == v["caught_when_confirmed"] else "(CHANGED)") for c, v in reg["checks"].items()), flush=True)
    sh("git checkout -q -- . && git clean -fdq", wt)

if __name__ == "__main__":
    main()
