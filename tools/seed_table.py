#!/usr/bin/env python3
"""Rewrite DESIGN.md §12 (between the markers) from seeded/*/meta.json and README.md."""
import glob, json, os, re
ROOT = os.path.dirname(os.path.dirname(os.path.abspath(__file__)))
rows = []
for f in sorted(glob.glob(os.path.join(ROOT, "seeded", "*", "meta.json"))):
    m = json.load(open(f))
    d = os.path.dirname(f)
    what = ""
    rd = os.path.join(d, "README.md")
    if os.path.exists(rd):
        txt = open(rd).read()
        # first non-heading paragraph
        for para in re.split(r"\n\s*\n", txt):
            p = " ".join(l.strip() for l in para.split("\n") if not l.startswith("#")).strip()
            if len(p) > 40:
                what = p[:230] + ("…" if len(p) > 230 else "")
                break
    what = m.get("summary", what).replace("|", "/")
    ok = (m.get("demo_on_unchanged_tree") == "passes" and str(m.get("pinned_suite_with_change", "")).startswith("passes")
          and m.get("demo_with_change") == "fails")
    checks = []
    for c, v in (m.get("checks") or {}).items():
        det = (v.get("detail") or "").replace("|", "/")
        det = det[:150] + ("…" if len(det) > 150 else "")
        kind = "caught" if v.get("caught") else "MISSED"
        if v.get("caught") and "no-failing-input-found" in v.get("violation_line", ""):
            kind = "caught (no-failing-input-found)"
        checks.append("`./check %s`: %s%s" % (c, kind, " — " + det if det else ""))
    rows.append("| %s | %s | %s | %s |" % (m["seed"], what, "yes" if ok else "NO: see meta.json", "<br>".join(checks)))
table = ("| seed | change (from the author's README) | confirmed (demo passes before, suite passes with, demo fails with) | verdict of the quick check |\n"
         "|---|---|---|---|\n" + "\n".join(rows) + "\n")
p = os.path.join(ROOT, "DESIGN.md")
s = open(p).read()
a, b = "<!-- SEED-TABLE-BEGIN -->", "<!-- SEED-TABLE-END -->"
if a in s:
    s = s[:s.index(a) + len(a)] + "\n" + table + s[s.index(b):]
    open(p, "w").write(s)
print("%d seeds" % len(rows))
