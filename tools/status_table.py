#!/usr/bin/env python3
"""Rewrite the status table of DESIGN.md §10 (between the markers) from evidence/*.json and tools/propcfg."""
import glob, json, os, importlib.util
ROOT = os.path.dirname(os.path.dirname(os.path.abspath(__file__)))
spec = importlib.util.spec_from_file_location("propcfg", os.path.join(ROOT, "tools", "propcfg.py"))
cfg = importlib.util.module_from_spec(spec); spec.loader.exec_module(cfg)
rows = []
for f in sorted(glob.glob(os.path.join(ROOT, "evidence", "C*.json"))):
    d = json.load(open(f)); c = d["coverage"]; pid = d["property_id"]
    th = [t["theorem"] for t in c.get("theorems", [])]
    special = [t for t in th if t.endswith("_partial") or "_refuted" in t]
    lt = cfg.CONFIG.get(pid, {}).get("level_text", "")
    claimed = "partial" if lt.upper().startswith("PARTIAL") else "proof"
    kf = [k for k in (c.get("known_finding_hits") or {})]
    if kf:
        claimed += " + known finding"
    streams = ", ".join("%s %d" % (k, v) for k, v in sorted((c.get("per_stream") or {}).items()))
    ex = [k for k, v in (c.get("exhaustive_streams") or {}).items() if v]
    stage = c.get("scheduler_stage", {}).get("executions")
    extra = (" + scheduler stage %d executions" % stage) if stage else ""
    rows.append("| %s | %d/%d closed%s | %s | %s (%s) | %.0f s | %d: %s%s%s |" % (
        pid, c.get("discharged", 0), c.get("obligations", 0),
        (" (" + str(len(special)) + " are `_partial`/`_refuted`)") if special else "", claimed,
        d.get("tier"), "seed %s" % d.get("seed"), d.get("wall_s", 0), c.get("evaluations", 0), streams,
        ("; exhaustive: " + ", ".join(ex)) if ex else "", extra))
table = ("| prop | theorems with `Print Assumptions` (all closed under the global context) | claimed | evidence from | wall | cases evaluated on implementation and model: per stream |\n"
         "|---|---|---|---|---|---|\n" + "\n".join(rows) + "\n")
p = os.path.join(ROOT, "DESIGN.md")
s = open(p).read()
a, b = "<!-- STATUS-TABLE-BEGIN -->", "<!-- STATUS-TABLE-END -->"
if a in s:
    s = s[:s.index(a) + len(a)] + "\n" + table + s[s.index(b):]
    open(p, "w").write(s)
print("%d rows" % len(rows))
