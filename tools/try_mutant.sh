#!/bin/bash
# try_mutant.sh <PID> <worktree> <dir-with patch.diff + demo_test.go> : self-test helper (not a registered command).
# Applies the seeded change in the scratch worktree, confirms it compiles and passes the pinned suite, that the
# demonstration fails with it and passes without it, then runs ./check PID against that worktree.
set -u
PID="$1"; WT="$2"; D="$3"
export GOFLAGS=-mod=mod GOPROXY=off GOSUMDB=off GOTOOLCHAIN=local
ROOT="$(cd "$(dirname "$0")/.." && pwd)"
cd "$WT" || exit 2
git checkout -q -- . ; git clean -fdq -e TASK.md -e OUT >/dev/null 2>&1
hdr="$(head -1 "$D/demo_test.go")"
dest="$(echo "$hdr" | sed -n 's/.*place in \([^ ]*\) as \([^ ]*\).*/\1\/\2/p' | sed 's#^\./##')"
[ -n "$dest" ] || dest="$(echo "$hdr" | grep -o '[a-z_/]*zz[a-z_]*_test\.go' | head -1)"
echo "== demo destination: ${dest:-<unknown>}   ($hdr)"
run_demo() { if [ -n "$dest" ]; then cp "$D/demo_test.go" "$WT/$dest"; (cd "$WT/$(dirname "$dest")" && go test -vet=off -count=1 -run 'Demo|demo|ZZ|Zz' . 2>&1 | tail -5); rm -f "$WT/$dest"; fi; }
echo "== demo on the unchanged tree (must pass)"; run_demo
git apply "$D/patch.diff" || { echo "patch does not apply"; exit 2; }
echo "== suite with the change (must pass)"
go build ./... 2>&1 | tail -3
go test -vet=off -count=1 $(go list ./... | grep -v /OUT) 2>&1 | grep -v '^ok' | tail -8
echo "== demo with the change (must fail)"; run_demo
echo "== ./check $PID against the changed tree"
mv OUT /tmp/mutout.$PID.$$ 2>/dev/null
(cd "$ROOT" && VERIF_REPO="$WT" VERIF_SCRATCH=mut timeout 1800 ./check "$PID" --tier "${TIER:-quick}" 2>&1 | grep -v '^KNOWN-FINDING' | tail -6)
mv /tmp/mutout.$PID.$$ OUT 2>/dev/null
git checkout -q -- .
