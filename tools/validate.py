#!/usr/bin/env python3
"""Validate MANIFEST.json and evidence/*.json against the schemas (uses python3-vt's jsonschema)."""
import json, sys, glob, os
import jsonschema
root = os.path.dirname(os.path.dirname(os.path.abspath(__file__)))
ok = True
def v(path, schema):
    global ok
    try:
        jsonschema.validate(json.load(open(path)), json.load(open(schema)))
        print("valid:", os.path.relpath(path, root))
    except Exception as e:
        ok = False
        print("INVALID:", path, str(e)[:500])
if os.path.exists(os.path.join(root, "MANIFEST.json")):
    v(os.path.join(root, "MANIFEST.json"), "/root/.vp/MANIFEST.schema.json")
for f in sorted(glob.glob(os.path.join(root, "evidence", "*.json"))):
    v(f, "/root/.vp/EVIDENCE.schema.json")
sys.exit(0 if ok else 1)
